// Package snowlife holds the checks of the consensus-wrapper properties
// (C20 block lifecycle, C21 dynamic state sync hand-over) of hypersdk's snow
// package. Everything here drives snow.VM through its exported API only, with a
// recording snow.Chain / snow.ChainIndex implementation owned by the harness
// and a small model of the snowman engine (processing tree, preference,
// accepted chain, transitive rejection).
package snowlife

import (
	"context"
	"crypto/sha256"
	"encoding/binary"
	"encoding/json"
	"errors"
	"fmt"
	"sort"
	"strings"
	"sync"
	"time"

	"github.com/ava-labs/avalanchego/api/metrics"
	"github.com/ava-labs/avalanchego/database"
	"github.com/ava-labs/avalanchego/ids"
	avasnow "github.com/ava-labs/avalanchego/snow"
	"github.com/ava-labs/avalanchego/snow/engine/common"
	"github.com/ava-labs/avalanchego/snow/engine/snowman/block"
	"github.com/ava-labs/avalanchego/utils/logging"

	"github.com/ava-labs/hypersdk/event"
	"github.com/ava-labs/hypersdk/snow"
	"github.com/ava-labs/hypersdk/verifharness/vstat"
)

// ---------------------------------------------------------------------------
// block types: Input = *blk, Output = *out, Accepted = *acc
// ---------------------------------------------------------------------------

type digest [32]byte

func (d digest) String() string { return fmt.Sprintf("%x", d[:4]) }

const blkLen = 32 + 8 + 8 + 8 + 1 + 8

type blk struct {
	Prnt    ids.ID
	Hght    uint64
	Tm      int64
	Payload uint64
	Invalid bool
	PCtx    uint64 // 0 = no P-chain context

	id  ids.ID
	raw []byte
}

func newBlk(parent ids.ID, h uint64, tm int64, payload uint64, invalid bool, pctx uint64) *blk {
	b := &blk{Prnt: parent, Hght: h, Tm: tm, Payload: payload, Invalid: invalid, PCtx: pctx}
	raw := make([]byte, blkLen)
	copy(raw, parent[:])
	binary.BigEndian.PutUint64(raw[32:], h)
	binary.BigEndian.PutUint64(raw[40:], uint64(tm))
	binary.BigEndian.PutUint64(raw[48:], payload)
	if invalid {
		raw[56] = 1
	}
	binary.BigEndian.PutUint64(raw[57:], pctx)
	b.raw = raw
	b.id = ids.ID(sha256.Sum256(raw)) // == hypersdk utils.ToID(raw)
	return b
}

var errBadBlock = errors.New("harness: malformed block bytes")

func parseBlk(raw []byte) (*blk, error) {
	if len(raw) != blkLen || raw[56] > 1 {
		return nil, errBadBlock
	}
	var p ids.ID
	copy(p[:], raw[:32])
	return newBlk(p, binary.BigEndian.Uint64(raw[32:]), int64(binary.BigEndian.Uint64(raw[40:])),
		binary.BigEndian.Uint64(raw[48:]), raw[56] == 1, binary.BigEndian.Uint64(raw[57:])), nil
}

func (b *blk) GetID() ids.ID       { return b.id }
func (b *blk) GetParent() ids.ID   { return b.Prnt }
func (b *blk) GetTimestamp() int64 { return b.Tm }
func (b *blk) GetBytes() []byte    { return b.raw }
func (b *blk) GetHeight() uint64   { return b.Hght }
func (b *blk) GetContext() *block.Context {
	if b.PCtx == 0 {
		return nil
	}
	return &block.Context{PChainHeight: b.PCtx}
}

func (b *blk) String() string {
	if b == nil {
		return "blk(nil)"
	}
	return fmt.Sprintf("blk(h=%d p=%d inv=%t id=%x)", b.Hght, b.Payload, b.Invalid, b.id[:3])
}

// out is the Output type: the block plus the running digest of the chain that
// was executed to reach it: Digest(b) = H("o" | Digest(parent) | id(b)). Only
// the harness chain (or the harness itself when it plays the state syncer)
// creates values of this type.
type out struct {
	*blk
	Digest digest
	Src    string // "build" | "verify" | "sync" | "genesis"
}

func (o *out) String() string {
	if o == nil {
		return "out(nil)"
	}
	return fmt.Sprintf("out(%s d=%s %s)", o.blk, o.Digest, o.Src)
}

// acc is the Accepted type: the output plus the running digest of accepts.
type acc struct {
	*out
	AccDigest digest
}

func (a *acc) String() string {
	if a == nil {
		return "acc(nil)"
	}
	return fmt.Sprintf("acc(%s a=%s)", a.out, a.AccDigest)
}

func nextDigest(tag byte, parent digest, id ids.ID) digest {
	h := sha256.New()
	h.Write([]byte{tag})
	h.Write(parent[:])
	h.Write(id[:])
	var d digest
	copy(d[:], h.Sum(nil))
	return d
}

type sblk = snow.StatefulBlock[*blk, *out, *acc]

// ---------------------------------------------------------------------------
// recorder: everything the wrapper tells the chain / the subscribers
// ---------------------------------------------------------------------------

type verCall struct {
	parent *out
	b      *blk
	ok     bool
	health error // HealthCheck probe taken inside the callback (C21), nil if not probed
	probed bool
}

type accCall struct {
	parent   *acc
	o        *out
	probeErr string // lookups of the block from inside the callback
}

type buildCall struct {
	parent *out
	ctx    *block.Context
}

type idxUpd struct {
	b             *blk
	before, after string // vm.GetBlock(id) probes from inside UpdateLastAccepted ("" = found)
}

type recorder struct {
	mu       sync.Mutex
	verCalls []verCall
	accCalls []accCall
	builds   []buildCall
	parses   int
	nVer     []*out
	nAcc     []*acc
	nRej     []*out
	nPreAcc  []*blk
	nPreRej  []*blk
	idxUpds  []idxUpd
}

type recSnap struct {
	verCalls []verCall
	accCalls []accCall
	builds   []buildCall
	nVer     []*out
	nAcc     []*acc
	nRej     []*out
	nPreAcc  []*blk
	nPreRej  []*blk
	idxUpds  []idxUpd
}

func (r *recorder) snap() recSnap {
	r.mu.Lock()
	defer r.mu.Unlock()
	return recSnap{
		verCalls: append([]verCall(nil), r.verCalls...),
		accCalls: append([]accCall(nil), r.accCalls...),
		builds:   append([]buildCall(nil), r.builds...),
		nVer:     append([]*out(nil), r.nVer...),
		nAcc:     append([]*acc(nil), r.nAcc...),
		nRej:     append([]*out(nil), r.nRej...),
		nPreAcc:  append([]*blk(nil), r.nPreAcc...),
		nPreRej:  append([]*blk(nil), r.nPreRej...),
		idxUpds:  append([]idxUpd(nil), r.idxUpds...),
	}
}

func (r *recorder) nAccLen() int {
	r.mu.Lock()
	defer r.mu.Unlock()
	return len(r.nAcc)
}

// ---------------------------------------------------------------------------
// in-memory ChainIndex ("disk"): returns a freshly parsed block on every read
// ---------------------------------------------------------------------------

type memIndex struct {
	mu       sync.Mutex
	byID     map[ids.ID][]byte
	byHeight map[uint64]ids.ID
	last     uint64
	hasLast  bool
	reads    int // GetBlock / GetBlockIDAtHeight / GetBlockByHeight served
	rec      *recorder
	probe    func(id ids.ID) string // set once the VM exists
}

func newMemIndex(rec *recorder) *memIndex {
	return &memIndex{byID: map[ids.ID][]byte{}, byHeight: map[uint64]ids.ID{}, rec: rec}
}

func (m *memIndex) store(b *blk) {
	m.mu.Lock()
	m.byID[b.id] = b.raw
	m.byHeight[b.Hght] = b.id
	m.last, m.hasLast = b.Hght, true
	m.mu.Unlock()
}

func (m *memIndex) UpdateLastAccepted(_ context.Context, b *blk) error {
	u := idxUpd{b: b}
	if m.probe != nil {
		u.before = m.probe(b.id)
	}
	m.store(b)
	if m.probe != nil {
		u.after = m.probe(b.id)
	}
	m.rec.mu.Lock()
	m.rec.idxUpds = append(m.rec.idxUpds, u)
	m.rec.mu.Unlock()
	return nil
}

func (m *memIndex) GetLastAcceptedHeight(context.Context) (uint64, error) {
	m.mu.Lock()
	defer m.mu.Unlock()
	if !m.hasLast {
		return 0, database.ErrNotFound
	}
	return m.last, nil
}

func (m *memIndex) GetBlock(_ context.Context, id ids.ID) (*blk, error) {
	m.mu.Lock()
	raw, ok := m.byID[id]
	m.reads++
	m.mu.Unlock()
	if !ok {
		return nil, database.ErrNotFound
	}
	return parseBlk(raw)
}

func (m *memIndex) GetBlockIDAtHeight(_ context.Context, h uint64) (ids.ID, error) {
	m.mu.Lock()
	defer m.mu.Unlock()
	m.reads++
	id, ok := m.byHeight[h]
	if !ok {
		return ids.Empty, database.ErrNotFound
	}
	return id, nil
}

func (m *memIndex) GetBlockIDHeight(_ context.Context, id ids.ID) (uint64, error) {
	m.mu.Lock()
	raw, ok := m.byID[id]
	m.mu.Unlock()
	if !ok {
		return 0, database.ErrNotFound
	}
	return binary.BigEndian.Uint64(raw[32:]), nil
}

func (m *memIndex) GetBlockByHeight(ctx context.Context, h uint64) (*blk, error) {
	id, err := m.GetBlockIDAtHeight(ctx, h)
	if err != nil {
		return nil, err
	}
	return m.GetBlock(ctx, id)
}

func (m *memIndex) has(h uint64) bool {
	m.mu.Lock()
	defer m.mu.Unlock()
	_, ok := m.byHeight[h]
	return ok
}

func (m *memIndex) readCount() int {
	m.mu.Lock()
	defer m.mu.Unlock()
	return m.reads
}

// ---------------------------------------------------------------------------
// recording chain
// ---------------------------------------------------------------------------

var (
	errChainInvalid = errors.New("harness chain: block is invalid")
	errNilParent    = errors.New("harness chain: nil parent output")
)

type recChain struct {
	rec       *recorder
	idx       *memIndex
	genesis   *blk
	genOut    *out
	genAcc    *acc
	initReady bool
	ci        *snow.ConsensusIndex[*blk, *out, *acc]
	vm        *snow.VM[*blk, *out, *acc]

	skipHeightProbe bool

	// build parameters set by the engine model right before vm.BuildBlock
	nextPayload uint64

	// accept gate (harness-owned schedule of the async accepter)
	gateMu sync.Mutex
	gate   chan struct{} // non-nil and open = accepter must wait

	// hooks run inside callbacks (harness-owned interleavings)
	onVerify func(parent *out, b *blk) (probed bool, health error)
	onPreAcc func(b *blk)
	onPreRej func(b *blk)
}

func (c *recChain) Initialize(_ context.Context, _ snow.ChainInput, vm *snow.VM[*blk, *out, *acc]) (snow.ChainIndex[*blk], *out, *acc, bool, error) {
	c.vm = vm
	c.idx.store(c.genesis)
	r := c.rec
	vm.AddVerifiedSub(event.SubscriptionFunc[*out]{NotifyF: func(_ context.Context, o *out) error {
		r.mu.Lock()
		r.nVer = append(r.nVer, o)
		r.mu.Unlock()
		return nil
	}})
	vm.AddAcceptedSub(event.SubscriptionFunc[*acc]{NotifyF: func(_ context.Context, a *acc) error {
		r.mu.Lock()
		r.nAcc = append(r.nAcc, a)
		r.mu.Unlock()
		return nil
	}})
	vm.AddRejectedSub(event.SubscriptionFunc[*out]{NotifyF: func(_ context.Context, o *out) error {
		r.mu.Lock()
		r.nRej = append(r.nRej, o)
		r.mu.Unlock()
		return nil
	}})
	vm.AddPreReadyAcceptedSub(event.SubscriptionFunc[*blk]{NotifyF: func(_ context.Context, b *blk) error {
		r.mu.Lock()
		r.nPreAcc = append(r.nPreAcc, b)
		r.mu.Unlock()
		if c.onPreAcc != nil {
			c.onPreAcc(b) // engine thread, inside Accept, chain lock held
		}
		return nil
	}})
	vm.AddPreRejectedSub(event.SubscriptionFunc[*blk]{NotifyF: func(_ context.Context, b *blk) error {
		r.mu.Lock()
		r.nPreRej = append(r.nPreRej, b)
		r.mu.Unlock()
		if c.onPreRej != nil {
			c.onPreRej(b) // engine thread, inside Reject
		}
		return nil
	}})
	if !c.initReady {
		return c.idx, nil, nil, false, nil
	}
	return c.idx, c.genOut, c.genAcc, true, nil
}

func (c *recChain) SetConsensusIndex(ci *snow.ConsensusIndex[*blk, *out, *acc]) { c.ci = ci }

func (c *recChain) BuildBlock(_ context.Context, bctx *block.Context, parent *out) (*blk, *out, error) {
	c.rec.mu.Lock()
	c.rec.builds = append(c.rec.builds, buildCall{parent: parent, ctx: bctx})
	c.rec.mu.Unlock()
	if parent == nil || parent.blk == nil {
		return nil, nil, errNilParent
	}
	var pctx uint64
	if bctx != nil {
		pctx = bctx.PChainHeight
	}
	b := newBlk(parent.id, parent.Hght+1, parent.Tm+1, c.nextPayload, false, pctx)
	return b, &out{blk: b, Digest: nextDigest('o', parent.Digest, b.id), Src: "build"}, nil
}

func (c *recChain) ParseBlock(_ context.Context, raw []byte) (*blk, error) {
	c.rec.mu.Lock()
	c.rec.parses++
	c.rec.mu.Unlock()
	return parseBlk(raw)
}

func (c *recChain) VerifyBlock(_ context.Context, parent *out, b *blk) (*out, error) {
	vc := verCall{parent: parent, b: b}
	if c.onVerify != nil {
		vc.probed, vc.health = c.onVerify(parent, b)
	}
	ok := parent != nil && parent.blk != nil && b != nil && !b.Invalid
	vc.ok = ok
	c.rec.mu.Lock()
	c.rec.verCalls = append(c.rec.verCalls, vc)
	c.rec.mu.Unlock()
	switch {
	case parent == nil || parent.blk == nil || b == nil:
		return nil, errNilParent
	case b.Invalid:
		return nil, fmt.Errorf("%w: %s", errChainInvalid, b)
	}
	return &out{blk: b, Digest: nextDigest('o', parent.Digest, b.id), Src: "verify"}, nil
}

// AcceptBlock never returns an error: an error would make the async accepter
// panic the whole test process. Anything wrong is recorded and judged by the
// oracle on the engine thread.
func (c *recChain) AcceptBlock(_ context.Context, parent *acc, o *out) (*acc, error) {
	c.gateMu.Lock()
	g := c.gate
	c.gateMu.Unlock()
	if g != nil {
		<-g
	}
	ac := accCall{parent: parent, o: o}
	if o != nil && o.blk != nil && c.vm != nil {
		var errs []string
		if b, err := c.vm.GetBlock(context.Background(), o.id); err != nil {
			errs = append(errs, "GetBlock: "+err.Error())
		} else if b.ID() != o.id {
			errs = append(errs, "GetBlock returned another block")
		}
		if c.skipHeightProbe {
			// known finding C20-height-lookup-torn-read: no by-height lookup off the engine thread
		} else if id, err := c.vm.GetBlockIDAtHeight(context.Background(), o.Hght); err != nil {
			errs = append(errs, "GetBlockIDAtHeight: "+err.Error())
		} else if id != o.id {
			errs = append(errs, "GetBlockIDAtHeight returned another block")
		}
		ac.probeErr = strings.Join(errs, "; ")
	}
	c.rec.mu.Lock()
	c.rec.accCalls = append(c.rec.accCalls, ac)
	c.rec.mu.Unlock()
	if o == nil || o.blk == nil {
		return &acc{out: &out{blk: newBlk(ids.Empty, 0, 0, 0, false, 0)}}, nil
	}
	var pd digest
	if parent != nil {
		pd = parent.AccDigest
	}
	return &acc{out: o, AccDigest: nextDigest('a', pd, o.id)}, nil
}

func (c *recChain) hold() {
	c.gateMu.Lock()
	if c.gate == nil {
		c.gate = make(chan struct{})
	}
	c.gateMu.Unlock()
}

func (c *recChain) release() {
	c.gateMu.Lock()
	if c.gate != nil {
		close(c.gate)
		c.gate = nil
	}
	c.gateMu.Unlock()
}

// ---------------------------------------------------------------------------
// engine model
// ---------------------------------------------------------------------------

type mstat int

const (
	sParsed mstat = iota // known bytes, not (successfully) verified
	sProcessing
	sAccepted
	sRejected
	sFailed // Verify returned an error; the engine dropped it
)

type mblk struct {
	b        *blk
	h        *sblk
	hs       []*sblk // every wrapper any ParseBlock / BuildBlock call returned for this block
	built    bool
	st       mstat
	verified bool // the chain really produced an output for it (not just vacuously)
	children []ids.ID
}

type op struct {
	K   string `json:"k"`
	A   int    `json:"a,omitempty"`
	B   int    `json:"b,omitempty"`
	Inv bool   `json:"inv,omitempty"`
}

func (o op) String() string {
	s := o.K
	if o.A != 0 || o.B != 0 {
		s += fmt.Sprintf("(%d,%d)", o.A, o.B)
	}
	if o.Inv {
		s += "!"
	}
	return s
}

type errInconclusive struct{ msg string }

func (e errInconclusive) Error() string { return "INCONCLUSIVE: " + e.msg }

const awaitBound = 30 * time.Second

// findingF19: processAccept looks its parent up by id; once the accepted-block window cache
// (size W) has evicted it, the copy read back from the index has no Accepted value and
// Chain.AcceptBlock receives a zero accepted parent.
const findingF19 = "C20-accept-parent-evicted"

type eng struct {
	ctx  context.Context
	vm   *snow.VM[*blk, *out, *acc]
	ch   *recChain
	rec  *recorder
	idx  *memIndex
	st   *vstat.Stats
	c21  bool
	winW int

	blocks     map[ids.ID]*mblk
	processing []ids.ID // creation order
	chain      []ids.ID // accepted chain, chain[i] has height baseH+i
	baseH      uint64
	last, pref ids.ID
	ready      bool
	D, AD      map[ids.ID]digest

	expAcc   []ids.ID // AcceptBlock calls / accepted notifications the property demands, in order
	expRej   []ids.ID // rejected notifications demanded (rejects of verified blocks), in order
	expPreRj []ids.ID // rejects of unverified blocks (C21)
	engAcc   int      // engine Accept calls in ready mode
	held     bool

	// cursors / baselines
	curVer, curNVer, curBuild, curIdx int
	baseNAcc                          int
	nVerCount                         map[ids.ID]int

	// C21
	unresolved map[ids.ID]bool
	doomed     map[ids.ID]bool // processing at hand-over, conflicting with the accepted chain, rejection pending
	finished   bool
	healthSeen struct{ unhealthy, healthy bool }

	// C21 race schedule: the sibling rejections owed for the last accept of a path are deferred
	deferRejects bool
	skipTrace    bool
	deferred     []ids.ID

	knownF19 bool
	payload  uint64
	labels   map[string]bool
	stepNo  int
}

func (e *eng) label(l string) { e.labels[l] = true }

func newEngine(st *vstat.Stats, parsedW, acceptedW int, initReady bool, c21 bool) (*eng, error) {
	rec := &recorder{}
	idx := newMemIndex(rec)
	g := newBlk(ids.Empty, 0, 1_700_000_000_000, 0, false, 0)
	gOut := &out{blk: g, Digest: nextDigest('o', digest{}, g.id), Src: "genesis"}
	gAcc := &acc{out: gOut, AccDigest: nextDigest('a', digest{}, g.id)}
	ch := &recChain{rec: rec, idx: idx, genesis: g, genOut: gOut, genAcc: gAcc, initReady: initReady}
	if knownF30(st) {
		st.Exclude(findingF30)
		ch.skipHeightProbe = true
	}
	// (the driver passes known findings per property: C21 shares the engine, so an entry
	// with property C21 and id "C21-accept-parent-evicted" switches the same exclusion on)
	knownF19 := st.Known(findingF19) || st.Known("C21-accept-parent-evicted")
	if knownF19 && acceptedW < 2 {
		// with a window of 1 the parent is evicted before the accepter can fetch it
		st.Exclude(findingF19)
		acceptedW = 2
	}
	vm := snow.NewVM[*blk, *out, *acc]("verif", ch)
	cfg, err := json.Marshal(map[string]any{snow.SnowVMConfigKey: snow.VMConfig{ParsedBlockCacheSize: parsedW, AcceptedBlockWindowCache: acceptedW}})
	if err != nil {
		return nil, err
	}
	sctx := &avasnow.Context{Log: logging.NoLog{}, Metrics: metrics.NewPrefixGatherer()}
	toEngine := make(chan common.Message, 8)
	ctx := context.Background()
	if err := vm.Initialize(ctx, sctx, nil, nil, nil, cfg, toEngine, nil, nil); err != nil {
		return nil, fmt.Errorf("harness: vm.Initialize: %w", err)
	}
	idx.probe = func(id ids.ID) string {
		b, err := vm.GetBlock(ctx, id)
		switch {
		case err != nil:
			return err.Error()
		case b.ID() != id:
			return "another block"
		}
		return ""
	}
	e := &eng{
		ctx: ctx, vm: vm, ch: ch, rec: rec, idx: idx, st: st, c21: c21, winW: acceptedW,
		blocks: map[ids.ID]*mblk{}, D: map[ids.ID]digest{}, AD: map[ids.ID]digest{},
		nVerCount: map[ids.ID]int{}, unresolved: map[ids.ID]bool{}, doomed: map[ids.ID]bool{}, labels: map[string]bool{},
		ready: initReady, knownF19: knownF19,
	}
	e.blocks[g.id] = &mblk{b: g, st: sAccepted, verified: initReady, h: vm.LastAcceptedBlock(ctx)}
	e.D[g.id], e.AD[g.id] = gOut.Digest, gAcc.AccDigest
	e.chain, e.baseH, e.last, e.pref = []ids.ID{g.id}, 0, g.id, g.id
	s := rec.snap()
	e.baseNAcc = len(s.nAcc) // the start-up notification of the last accepted block is not judged
	e.curNVer, e.curVer, e.curBuild, e.curIdx = len(s.nVer), len(s.verCalls), len(s.builds), len(s.idxUpds)
	return e, nil
}

func (e *eng) shutdown() {
	e.ch.release()
	_ = e.vm.Shutdown(e.ctx)
}

func (e *eng) nextPayload() uint64 { e.payload++; return e.payload }

// candidates: last accepted first, then processing blocks in creation order.
func (e *eng) candidates() []ids.ID {
	return append([]ids.ID{e.last}, e.processing...)
}

func pickRecent(c []ids.ID, k int) ids.ID {
	if k < 0 {
		k = -k
	}
	return c[len(c)-1-(k%len(c))]
}

func (e *eng) addChild(parent, child ids.ID) {
	p := e.blocks[parent]
	p.children = append(p.children, child)
}

func (e *eng) removeProcessing(id ids.ID) {
	for i, x := range e.processing {
		if x == id {
			e.processing = append(e.processing[:i:i], e.processing[i+1:]...)
			return
		}
	}
}

func (e *eng) depthTo(id ids.ID) (int, bool) { // distance from last accepted, via processing ancestors
	d := 0
	for id != e.last {
		m, ok := e.blocks[id]
		if !ok || m.st != sProcessing {
			return 0, false
		}
		id = m.b.Prnt
		d++
	}
	return d, true
}

func (e *eng) pathFromLast(id ids.ID) []ids.ID {
	var p []ids.ID
	for id != e.last {
		p = append(p, id)
		id = e.blocks[id].b.Prnt
	}
	for i, j := 0, len(p)-1; i < j; i, j = i+1, j-1 {
		p[i], p[j] = p[j], p[i]
	}
	return p
}

func (e *eng) noteSwitch(oldPref, newPref ids.ID) {
	if oldPref == newPref {
		return
	}
	po, pn := e.pathFromLast(oldPref), e.pathFromLast(newPref)
	i := 0
	for i < len(po) && i < len(pn) && po[i] == pn[i] {
		i++
	}
	do, dn := len(po)-i, len(pn)-i
	if do >= 1 && dn >= 1 && (do >= 2 || dn >= 2) {
		e.label("deep-fork-switch")
	}
	if do >= 2 && dn >= 2 {
		e.label("deep-fork-switch-both>=2")
	}
}

func (e *eng) setPref(id ids.ID) error {
	if err := e.vm.SetPreference(e.ctx, id); err != nil {
		return fmt.Errorf("SetPreference(%s) failed: %w", e.blocks[id].b, err)
	}
	e.pref = id
	return nil
}

// --- trace checks ----------------------------------------------------------

// checkVerCalls judges the VerifyBlock / BuildBlock callbacks made since the
// last call: the parent handed to the chain must be the output the chain itself
// produced (or was given by the syncer) for exactly the block's parent, i.e. the
// chain only verifies on a verified-or-accepted parent. allowed (if non-nil)
// limits which blocks may have been verified during the step.
func (e *eng) checkVerCalls(s recSnap, allowed map[ids.ID]bool, what string) ([]verCall, error) {
	calls := s.verCalls[e.curVer:]
	e.curVer = len(s.verCalls)
	for _, vc := range calls {
		if vc.b == nil {
			return nil, fmt.Errorf("%s: VerifyBlock called with a nil block", what)
		}
		if allowed != nil && !allowed[vc.b.id] {
			return nil, fmt.Errorf("%s: unexpected VerifyBlock of %s", what, vc.b)
		}
		if vc.parent == nil || vc.parent.blk == nil {
			return nil, fmt.Errorf("%s: VerifyBlock(%s) called with a nil parent output: the parent was neither verified nor accepted", what, vc.b)
		}
		if vc.parent.id != vc.b.Prnt {
			return nil, fmt.Errorf("%s: VerifyBlock(%s) called on %s which is not its parent", what, vc.b, vc.parent)
		}
		want, ok := e.D[vc.b.Prnt]
		if !ok || want != vc.parent.Digest {
			return nil, fmt.Errorf("%s: VerifyBlock(%s) called on parent output %s, want digest %s", what, vc.b, vc.parent, want)
		}
		if pm := e.blocks[vc.b.Prnt]; pm == nil || (pm.st != sProcessing && pm.st != sAccepted) {
			return nil, fmt.Errorf("%s: VerifyBlock(%s) on a parent the engine neither verified nor accepted", what, vc.b)
		}
	}
	for _, bc := range s.builds[e.curBuild:] {
		if bc.parent == nil || bc.parent.blk == nil {
			if e.c21 {
				continue // building on an unverified preference after sync is a documented edge case
			}
			return nil, fmt.Errorf("%s: BuildBlock called with a nil parent output", what)
		}
		if bc.parent.id != e.pref || bc.parent.Digest != e.D[e.pref] {
			return nil, fmt.Errorf("%s: BuildBlock called on %s, engine preference is %s", what, bc.parent, e.blocks[e.pref].b)
		}
	}
	e.curBuild = len(s.builds)
	return calls, nil
}

// checkAccepts: AcceptBlock callbacks and accepted notifications must be a
// prefix of what the engine decided (equal when final), in height order, each
// once, each on its accepted parent and with the output the chain produced.
func (e *eng) checkAccepts(s recSnap, final bool) error {
	ac := s.accCalls
	if len(ac) > len(e.expAcc) {
		x := ac[len(e.expAcc)]
		return fmt.Errorf("AcceptBlock(%s) called but the engine accepted only %d blocks for execution", x.o, len(e.expAcc))
	}
	for i, c := range ac {
		want := e.expAcc[i]
		wb := e.blocks[want].b
		if c.o == nil || c.o.blk == nil {
			return fmt.Errorf("AcceptBlock #%d called with a nil output (expected %s): block accepted without being verified", i, wb)
		}
		if c.o.id != want {
			return fmt.Errorf("AcceptBlock #%d is %s, engine accepted %s at that position (order / once-only / rejected-block violation)", i, c.o, wb)
		}
		if c.o.Digest != e.D[want] {
			return fmt.Errorf("AcceptBlock #%d: output %s does not carry the digest of executing its chain (%s)", i, c.o, e.D[want])
		}
		if i > 0 && c.o.Hght != ac[i-1].o.Hght+1 {
			return fmt.Errorf("AcceptBlock #%d: height %d after %d", i, c.o.Hght, ac[i-1].o.Hght)
		}
		if c.parent == nil || c.parent.out == nil || c.parent.blk == nil {
			return fmt.Errorf("AcceptBlock(%s) called with a nil accepted parent", c.o)
		}
		if c.parent.id != wb.Prnt || c.parent.AccDigest != e.AD[wb.Prnt] {
			return fmt.Errorf("AcceptBlock(%s) called on %s which is not its accepted parent (want acc digest %s)", c.o, c.parent, e.AD[wb.Prnt])
		}
		if c.probeErr != "" {
			return fmt.Errorf("while AcceptBlock(%s) ran, lookups of that block failed: %s", c.o, c.probeErr)
		}
	}
	na := s.nAcc[e.baseNAcc:]
	if len(na) > len(ac) {
		return fmt.Errorf("accepted notification %s without a matching AcceptBlock", na[len(ac)])
	}
	for i, a := range na {
		if a == nil || a.out == nil || a.blk == nil || a.id != e.expAcc[i] {
			return fmt.Errorf("accepted notification #%d is %s, engine accepted %s at that position", i, a, e.blocks[e.expAcc[i]].b)
		}
		if a.AccDigest != e.AD[a.id] {
			return fmt.Errorf("accepted notification #%d %s carries the wrong accepted digest (want %s)", i, a, e.AD[a.id])
		}
	}
	if final && (len(ac) != len(e.expAcc) || len(na) != len(e.expAcc)) {
		return fmt.Errorf("engine accepted %d blocks for execution, chain saw %d AcceptBlock calls and %d accepted notifications after the queue drained", len(e.expAcc), len(ac), len(na))
	}
	return nil
}

// checkOnce: the chain verifies a block at most once and at most one verified notification is
// sent per block, whatever wrappers of it exist (normal operation, no state sync).
func (e *eng) checkOnce(s recSnap) error {
	okCalls, notifs := map[ids.ID]int{}, map[ids.ID]int{}
	for _, c := range s.verCalls {
		if c.ok && c.b != nil {
			if okCalls[c.b.id]++; okCalls[c.b.id] > 1 {
				return fmt.Errorf("the chain verified %s %d times", c.b, okCalls[c.b.id])
			}
		}
	}
	for _, o := range s.nVer {
		if o != nil && o.blk != nil {
			if notifs[o.id]++; notifs[o.id] > 1 {
				return fmt.Errorf("%d verified notifications for %s", notifs[o.id], o.blk)
			}
		}
	}
	return nil
}

func (e *eng) checkRejects(s recSnap) error {
	if len(s.nRej) != len(e.expRej) {
		return fmt.Errorf("engine rejected %d verified blocks, rejected subscribers saw %d notifications", len(e.expRej), len(s.nRej))
	}
	for i, o := range s.nRej {
		if o == nil || o.blk == nil || o.id != e.expRej[i] {
			return fmt.Errorf("rejected notification #%d is %s, engine rejected %s", i, o, e.blocks[e.expRej[i]].b)
		}
		if o.Digest != e.D[o.id] {
			return fmt.Errorf("rejected notification #%d %s carries a wrong output", i, o)
		}
	}
	if !e.c21 {
		if len(s.nPreRej) != 0 {
			return fmt.Errorf("pre-ready rejected notification %s for a node that never state synced", s.nPreRej[0])
		}
		if len(s.nPreAcc) != 0 {
			return fmt.Errorf("pre-ready accepted notification %s for a node that never state synced", s.nPreAcc[0])
		}
	}
	return nil
}

// checkIdx: while the engine's Accept persists the block, the block must stay
// visible to lookups (it is processing or accepted the whole time).
func (e *eng) checkIdx(s recSnap, accepting ids.ID) error {
	ups := s.idxUpds[e.curIdx:]
	e.curIdx = len(s.idxUpds)
	for _, u := range ups {
		if u.b == nil || u.b.id != accepting {
			continue
		}
		if u.before != "" || u.after != "" {
			return fmt.Errorf("during Accept(%s) a lookup of the block by id failed (before index write: %q, after: %q)", u.b, u.before, u.after)
		}
	}
	return nil
}

func (e *eng) await() error {
	if e.held || !e.ready {
		return nil
	}
	deadline := time.Now().Add(awaitBound)
	want := e.baseNAcc + len(e.expAcc)
	var tipSince time.Time
	for i := 0; e.rec.nAccLen() < want; i++ {
		// positive evidence instead of a bare timeout: the accepter publishes the executed tip
		// after it has notified the subscribers, so once the executed tip is the engine's last
		// accepted block (plus a grace period) no further notification can be on its way
		if a, err := e.ch.ci.GetLastAccepted(e.ctx); err == nil && a != nil && a.out != nil && a.blk != nil && a.id == e.last {
			if tipSince.IsZero() {
				tipSince = time.Now()
			} else if time.Since(tipSince) > 3*time.Second {
				return fmt.Errorf("the accepter finished executing the engine's last accepted block %s but only %d of %d accepted notifications were delivered", e.blocks[e.last].b, e.rec.nAccLen()-e.baseNAcc, len(e.expAcc))
			}
		}
		if time.Now().After(deadline) {
			return errInconclusive{fmt.Sprintf("accepted notifications did not arrive within %s (%d of %d)", awaitBound, e.rec.nAccLen()-e.baseNAcc, len(e.expAcc))}
		}
		if i < 200 {
			time.Sleep(20 * time.Microsecond)
		} else {
			time.Sleep(time.Millisecond)
		}
	}
	return e.checkAccepts(e.rec.snap(), true)
}

func (e *eng) awaitExecutedTip() error {
	deadline := time.Now().Add(awaitBound)
	for {
		a, err := e.ch.ci.GetLastAccepted(e.ctx)
		if err != nil {
			return fmt.Errorf("ConsensusIndex.GetLastAccepted failed in normal operation: %w", err)
		}
		if a != nil && a.out != nil && a.blk != nil && a.id == e.last {
			if a.AccDigest != e.AD[a.id] || a.Digest != e.D[a.id] {
				return fmt.Errorf("ConsensusIndex.GetLastAccepted = %s does not carry the state of executing the accepted chain (want d=%s a=%s)", a, e.D[a.id], e.AD[a.id])
			}
			return nil
		}
		if time.Now().After(deadline) {
			return errInconclusive{fmt.Sprintf("executed tip %s did not reach the engine's last accepted block within %s", a, awaitBound)}
		}
		time.Sleep(50 * time.Microsecond)
	}
}

// sweep: lookups by id and by height must return the engine's accepted chain at
// every accepted height that the node holds, processing blocks must be found by
// id, LastAccepted is the engine's last accepted block.
func (e *eng) sweep() error {
	ctx := e.ctx
	r0 := e.idx.readCount()
	for i, id := range e.chain {
		h := e.baseH + uint64(i)
		b := e.blocks[id].b
		got, err := e.vm.GetBlock(ctx, id)
		if err != nil {
			return fmt.Errorf("GetBlock(accepted %s) failed: %w", b, err)
		}
		if got.ID() != id || got.Height() != h {
			return fmt.Errorf("GetBlock(accepted %s) returned %s", b, got)
		}
		gh, err := e.vm.GetBlockByHeight(ctx, h)
		if err != nil {
			return fmt.Errorf("GetBlockByHeight(%d) failed: %w (accepted chain has %s)", h, err, b)
		}
		if gh.ID() != id {
			return fmt.Errorf("GetBlockByHeight(%d) returned %s, accepted chain has %s", h, gh, b)
		}
		gid, err := e.vm.GetBlockIDAtHeight(ctx, h)
		if err != nil {
			return fmt.Errorf("GetBlockIDAtHeight(%d) failed: %w (accepted chain has %s)", h, err, b)
		}
		if gid != id {
			return fmt.Errorf("GetBlockIDAtHeight(%d) returned %s, accepted chain has %s", h, gid, b)
		}
		if i%3 == 0 && e.ch.ci != nil {
			ib, err := e.ch.ci.GetBlockByHeight(ctx, h)
			if err != nil || ib.id != id {
				return fmt.Errorf("ConsensusIndex.GetBlockByHeight(%d) returned %v/%v, accepted chain has %s", h, ib, err, b)
			}
			ib, err = e.ch.ci.GetBlock(ctx, id)
			if err != nil || ib.id != id {
				return fmt.Errorf("ConsensusIndex.GetBlock(%s) returned %v/%v", b, ib, err)
			}
		}
	}
	if e.idx.readCount() > r0 && len(e.chain) > e.winW {
		e.label("disk-lookup-after-eviction")
	}
	la, err := e.vm.LastAccepted(ctx)
	if err != nil || la != e.last {
		return fmt.Errorf("LastAccepted() = %s/%v, engine's last accepted is %s", la, err, e.blocks[e.last].b)
	}
	if lb := e.vm.LastAcceptedBlock(ctx); lb == nil || lb.ID() != e.last {
		return fmt.Errorf("LastAcceptedBlock() = %s, engine's last accepted is %s", lb, e.blocks[e.last].b)
	}
	for _, id := range e.processing {
		got, err := e.vm.GetBlock(ctx, id)
		if err != nil {
			return fmt.Errorf("GetBlock(processing %s) failed: %w", e.blocks[id].b, err)
		}
		if got.ID() != id {
			return fmt.Errorf("GetBlock(processing %s) returned %s", e.blocks[id].b, got)
		}
	}
	if !e.c21 {
		// snow's own invariant (vm.go: verifiedBlocks = "blocks that passed verification but haven't
		// yet been accepted or rejected"): a block the engine never verified, dropped or rejected is
		// not in the processing set, so nothing serves it by id
		for id, m := range e.blocks {
			if m.st == sParsed || m.st == sFailed || m.st == sRejected {
				if got, err := e.vm.GetBlock(ctx, id); err == nil {
					return fmt.Errorf("GetBlock(%s) returned %s although the engine never verified it or rejected it: the processing set holds a block that is not processing", m.b, got)
				}
			}
		}
	}
	// the executed tip (ConsensusIndex.GetLastAccepted) lies on the accepted chain
	if e.ready && e.ch.ci != nil {
		a, err := e.ch.ci.GetLastAccepted(ctx)
		if err != nil {
			return fmt.Errorf("ConsensusIndex.GetLastAccepted failed in normal operation: %w", err)
		}
		if a == nil || a.out == nil || a.blk == nil || a.Hght < e.baseH || a.Hght > e.baseH+uint64(len(e.chain)-1) || e.chain[a.Hght-e.baseH] != a.id {
			return fmt.Errorf("ConsensusIndex.GetLastAccepted = %s is not on the accepted chain", a)
		}
		if a.AccDigest != e.AD[a.id] || a.Digest != e.D[a.id] {
			return fmt.Errorf("ConsensusIndex.GetLastAccepted = %s does not carry the state of executing the accepted chain (want d=%s a=%s)", a, e.D[a.id], e.AD[a.id])
		}
	}
	return nil
}

// --- engine calls ----------------------------------------------------------

// register a block the engine learned (by parse or build).
func (e *eng) learn(b *blk, h *sblk, built bool) *mblk {
	m, ok := e.blocks[b.id]
	if !ok {
		m = &mblk{b: b, st: sParsed}
		e.blocks[b.id] = m
		if pd, ok := e.D[b.Prnt]; ok {
			e.D[b.id] = nextDigest('o', pd, b.id)
		}
		if pa, ok := e.AD[b.Prnt]; ok {
			e.AD[b.id] = nextDigest('a', pa, b.id)
		}
	}
	if h != nil {
		dup := false
		for _, x := range m.hs {
			dup = dup || x == h
		}
		if !dup {
			m.hs = append(m.hs, h)
		}
	}
	if m.st != sProcessing && m.st != sAccepted {
		m.h = h // the engine keeps its handle of blocks it is tracking
	}
	m.built = m.built || built
	return m
}

// verify calls Verify on the engine's handle and judges the outcome.
// pctx: 0 = Verify(), otherwise VerifyWithContext(pctx).
func (e *eng) verify(m *mblk, pctx uint64) error {
	var err error
	if pctx == 0 {
		err = m.h.Verify(e.ctx)
	} else {
		err = m.h.VerifyWithContext(e.ctx, &block.Context{PChainHeight: pctx})
	}
	s := e.rec.snap()
	what := fmt.Sprintf("Verify(%s)", m.b)
	calls, cerr := e.checkVerCalls(s, map[ids.ID]bool{m.b.id: true}, what)
	if cerr != nil {
		return cerr
	}
	newN := s.nVer[e.curNVer:]
	e.curNVer = len(s.nVer)
	for _, o := range newN {
		if o == nil || o.blk == nil {
			return fmt.Errorf("%s: verified notification with a nil output", what)
		}
		if o.id != m.b.id {
			return fmt.Errorf("%s: verified notification for another block %s", what, o)
		}
		if o.Digest != e.D[o.id] {
			return fmt.Errorf("%s: verified notification %s carries a wrong output (want %s)", what, o, e.D[o.id])
		}
		e.nVerCount[o.id]++
	}
	pm := e.blocks[m.b.Prnt]
	parentOK := pm != nil && (pm.st == sAccepted && m.b.Prnt == e.last || pm.st == sProcessing) && pm.verified
	if !e.ready {
		// dynamic state sync: nothing may be executed
		if len(calls) != 0 || len(newN) != 0 {
			return fmt.Errorf("%s during state sync executed the block (%d VerifyBlock calls, %d notifications)", what, len(calls), len(newN))
		}
		if err != nil {
			m.st = sFailed
			return nil
		}
		e.becomeProcessing(m, false)
		return nil
	}
	chainOK := false
	for _, c := range calls {
		chainOK = chainOK || c.ok
	}
	if err != nil {
		if len(newN) != 0 {
			return fmt.Errorf("%s returned %v but a verified notification was sent", what, err)
		}
		ctxOK := pctx == m.b.PCtx
		if !m.b.Invalid && parentOK && ctxOK {
			return fmt.Errorf("%s returned %v for a valid block whose parent is verified (chain verified it: %t)", what, err, chainOK)
		}
		if m.st != sProcessing {
			m.st = sFailed
		}
		return nil
	}
	// the engine now treats the block as verified
	if m.built {
		if len(newN) > 1 || e.nVerCount[m.b.id] > 1 {
			return fmt.Errorf("%s: built block got %d verified notifications", what, e.nVerCount[m.b.id])
		}
		// a built block must not be accepted as verified with a context it was not built for
		if pctx != m.b.PCtx {
			return fmt.Errorf("%s succeeded with P-chain context %d on a block built with %d", what, pctx, m.b.PCtx)
		}
	} else {
		if m.b.Invalid || !chainOK {
			return fmt.Errorf("%s succeeded although the chain did not verify the block (invalid=%t, successful VerifyBlock calls=%d)", what, m.b.Invalid, len(calls))
		}
		if len(newN) != 1 || e.nVerCount[m.b.id] != 1 {
			return fmt.Errorf("%s succeeded: want exactly one verified notification, got %d now / %d in total", what, len(newN), e.nVerCount[m.b.id])
		}
		if len(calls) != 1 {
			return fmt.Errorf("%s: the chain verified the block %d times", what, len(calls))
		}
	}
	e.becomeProcessing(m, true)
	return e.echoParse(m, "processing (verified)")
}

// echoParse: the engine is handed the bytes of a block it has just verified / accepted once more
// (duplicate gossip). Whatever stale wrappers of the block exist, the wrapper returned now is in
// the verified state. For such blocks ParseBlock is answered from the processing set / accepted
// cache, so this does not disturb the parsed-block cache.
func (e *eng) echoParse(m *mblk, what string) error {
	if e.c21 || !e.ready {
		return nil
	}
	h, err := e.vm.ParseBlock(e.ctx, m.b.raw)
	if err != nil || h.ID() != m.b.id {
		return fmt.Errorf("ParseBlock(%s) of a %s block = %v, %v", m.b, what, h, err)
	}
	e.learn(m.b, h, false)
	if h.Output == nil || h.Output.blk == nil || h.Output.id != m.b.id || h.Output.Digest != e.D[m.b.id] {
		return fmt.Errorf("ParseBlock(%s) of a %s block returned an unverified wrapper %s (output %s); %d wrappers of the block exist", m.b, what, h, h.Output, len(m.hs))
	}
	return nil
}

func (e *eng) becomeProcessing(m *mblk, verified bool) {
	if m.st != sProcessing {
		m.st = sProcessing
		e.processing = append(e.processing, m.b.id)
		e.addChild(m.b.Prnt, m.b.id)
	}
	m.verified = verified
}

func (e *eng) reject(id ids.ID) error {
	m := e.blocks[id]
	if err := m.h.Reject(e.ctx); err != nil {
		return fmt.Errorf("Reject(%s) failed: %w", m.b, err)
	}
	m.st = sRejected
	e.removeProcessing(id)
	if m.verified {
		e.expRej = append(e.expRej, id)
	} else {
		e.expPreRj = append(e.expPreRj, id)
	}
	delete(e.unresolved, id)
	delete(e.doomed, id)
	if !e.c21 {
		if err := e.checkRejects(e.rec.snap()); err != nil {
			return err
		}
	}
	if e.c21 {
		if err := e.checkHealth(fmt.Sprintf("after Reject(%s)", m.b)); err != nil {
			return err
		}
	}
	for _, c := range m.children {
		if e.blocks[c].st == sProcessing {
			if err := e.reject(c); err != nil {
				return err
			}
		}
	}
	return nil
}

// acceptOne accepts the child id of the last accepted block and rejects its
// siblings transitively, as snowman does.
func (e *eng) acceptOne(id ids.ID, lastOfPath bool) error {
	m := e.blocks[id]
	if e.ready && e.held && len(e.expAcc)-(e.rec.nAccLen()-e.baseNAcc) >= 12 {
		e.ch.release()
		e.held = false
		e.label("auto-release")
	}
	if e.ready && e.knownF19 {
		// known finding C20-accept-parent-evicted: exclude exactly the class "more than W-2
		// accepted blocks still unprocessed when the engine accepts the next one"
		if err := e.limitBacklog(e.winW - 2); err != nil {
			return err
		}
	}
	if err := m.h.Accept(e.ctx); err != nil {
		return fmt.Errorf("Accept(%s) failed: %w", m.b, err)
	}
	parent := e.blocks[e.last]
	m.st = sAccepted
	e.removeProcessing(id)
	e.chain = append(e.chain, id)
	e.last = id
	if e.ready {
		e.expAcc = append(e.expAcc, id)
		e.engAcc++
		if err := e.echoParse(m, "last accepted"); err != nil {
			return err
		}
	}
	s := e.rec.snap()
	if err := e.checkIdx(s, id); err != nil {
		return err
	}
	if !e.skipTrace { // (a hand-over parked behind this Accept is running by now: judged when it is joined)
		if _, err := e.checkVerCalls(s, map[ids.ID]bool{}, fmt.Sprintf("Accept(%s)", m.b)); err != nil {
			return err
		}
		if err := e.checkAccepts(s, false); err != nil {
			return err
		}
	}
	if !e.ready {
		// vacuous accept: the moving sync target is announced once, nothing is executed
		if n := len(s.nPreAcc); n == 0 || s.nPreAcc[n-1] == nil || s.nPreAcc[n-1].id != id {
			return fmt.Errorf("Accept(%s) during state sync did not announce the new sync target", m.b)
		}
	}
	sibs := parent.children
	parent.children = nil
	for _, c := range sibs {
		if c != id && e.blocks[c].st == sProcessing {
			if e.deferRejects && lastOfPath {
				e.deferred = append(e.deferred, c)
				continue
			}
			if err := e.reject(c); err != nil {
				return err
			}
		}
	}
	return nil
}

// rejectOrder lists the blocks and their processing descendants, parent first.
func (e *eng) rejectOrder(roots []ids.ID) []ids.ID {
	var out []ids.ID
	var walk func(id ids.ID)
	walk = func(id ids.ID) {
		if e.blocks[id].st != sProcessing {
			return
		}
		out = append(out, id)
		for _, c := range e.blocks[id].children {
			walk(c)
		}
	}
	for _, r := range roots {
		walk(r)
	}
	return out
}

// markRejected is the model bookkeeping of a Reject issued elsewhere.
func (e *eng) markRejected(id ids.ID) {
	m := e.blocks[id]
	m.st = sRejected
	e.removeProcessing(id)
	delete(e.unresolved, id)
	delete(e.doomed, id)
}

func (r *recorder) accCallsLen() int {
	r.mu.Lock()
	defer r.mu.Unlock()
	return len(r.accCalls)
}

func (e *eng) limitBacklog(max int) error {
	if len(e.expAcc)-e.rec.accCallsLen() <= max {
		return nil
	}
	e.st.Exclude(findingF19)
	if e.held {
		e.ch.release()
		e.held = false
	}
	deadline := time.Now().Add(awaitBound)
	for len(e.expAcc)-e.rec.accCallsLen() > max {
		if time.Now().After(deadline) {
			return errInconclusive{"accept backlog did not shrink"}
		}
		time.Sleep(20 * time.Microsecond)
	}
	return nil
}

func (e *eng) acceptPath(path []ids.ID) error {
	for i, id := range path {
		if err := e.acceptOne(id, i == len(path)-1); err != nil {
			return err
		}
	}
	// the engine's preference is always the last accepted block or a descendant
	if m := e.blocks[e.pref]; m.st != sProcessing && e.pref != e.last {
		if err := e.setPref(e.last); err != nil {
			return err
		}
	} else if m.st == sProcessing {
		if _, ok := e.depthTo(e.pref); !ok {
			if err := e.setPref(e.last); err != nil {
				return err
			}
		}
	}
	return nil
}

// pathOK: every block on the path may be accepted by a correct network.
func (e *eng) pathOK(path []ids.ID) bool {
	for _, id := range path {
		m := e.blocks[id]
		if m.b.Invalid {
			return false
		}
		if e.ready && !m.verified {
			return false
		}
	}
	return true
}

func (e *eng) parseNew(parent ids.ID, invalid bool) (*mblk, error) {
	p := e.blocks[parent].b
	b := newBlk(p.id, p.Hght+1, p.Tm+1, e.nextPayload(), invalid, 0)
	h, err := e.vm.ParseBlock(e.ctx, b.raw)
	if err != nil {
		return nil, fmt.Errorf("ParseBlock(%s) failed: %w", b, err)
	}
	if h.ID() != b.id || h.Parent() != b.Prnt || h.Height() != b.Hght || string(h.Bytes()) != string(b.raw) {
		return nil, fmt.Errorf("ParseBlock(%s) returned %s", b, h)
	}
	return e.learn(b, h, false), nil
}

// step interprets one abstract op; returns skipped=true if inapplicable.
func (e *eng) step(o op) (bool, error) {
	e.stepNo++
	switch o.K {
	case "build":
		// o.A: 0 = no context, 1 = built and verified with the same context, 2 = verified with another context
		pm := e.blocks[e.pref]
		if !e.ready || !pm.verified {
			return true, nil
		}
		e.ch.nextPayload = e.nextPayload()
		var (
			h    *sblk
			err  error
			pctx uint64
		)
		if o.A == 0 {
			h, err = e.vm.BuildBlock(e.ctx)
		} else {
			pctx = 7
			h, err = e.vm.BuildBlockWithContext(e.ctx, &block.Context{PChainHeight: pctx})
		}
		if err != nil {
			return false, fmt.Errorf("BuildBlock on verified preference %s failed: %w", pm.b, err)
		}
		if h.Parent() != e.pref || h.Height() != pm.b.Hght+1 {
			return false, fmt.Errorf("BuildBlock returned %s, not a child of the preference %s", h, pm.b)
		}
		if _, err := e.checkVerCalls(e.rec.snap(), map[ids.ID]bool{}, "BuildBlock"); err != nil {
			return false, err
		}
		m := e.learn(h.Input, h, true)
		vctx := pctx
		if o.A == 2 {
			vctx = pctx + 1
			e.label("built-ctx-mismatch")
		}
		if err := e.verify(m, vctx); err != nil {
			return false, err
		}
		if m.st == sProcessing {
			e.label("built-verified")
			if err := e.setPref(m.b.id); err != nil {
				return false, err
			}
		}
	case "pv":
		parent := pickRecent(e.candidates(), o.A)
		m, err := e.parseNew(parent, o.Inv)
		if err != nil {
			return false, err
		}
		if err := e.verify(m, 0); err != nil {
			return false, err
		}
		if o.Inv {
			e.label("invalid-verify")
		}
		// snowman: a block added on top of the preferred tip becomes the preference
		if m.st == sProcessing && parent == e.pref {
			if err := e.setPref(m.b.id); err != nil {
				return false, err
			}
		}
	case "pk":
		// parse a block that is already known (processing, accepted, rejected, failed or built)
		all := make([]ids.ID, 0, len(e.blocks))
		for id := range e.blocks {
			all = append(all, id)
		}
		sort.Slice(all, func(i, j int) bool { return e.blocks[all[i]].b.Payload < e.blocks[all[j]].b.Payload })
		// o.B narrows the choice: 1 = blocks learned but not verified yet, 2 = blocks of which
		// several wrappers exist (falls back to all known blocks)
		if o.B == 1 || o.B == 2 {
			var sub []ids.ID
			for _, id := range all {
				m := e.blocks[id]
				if (o.B == 1 && (m.st == sParsed || m.st == sFailed) && !m.built) || (o.B == 2 && len(m.hs) > 1) {
					sub = append(sub, id)
				}
			}
			if len(sub) > 0 {
				all = sub
			}
		}
		id := pickRecent(all, o.A)
		m := e.blocks[id]
		h, err := e.vm.ParseBlock(e.ctx, m.b.raw)
		if err != nil {
			return false, fmt.Errorf("ParseBlock(known %s) failed: %w", m.b, err)
		}
		if h.ID() != id {
			return false, fmt.Errorf("ParseBlock(known %s) returned %s", m.b, h)
		}
		nw := len(m.hs)
		e.learn(m.b, h, false)
		if len(m.hs) > 1 && len(m.hs) > nw {
			e.label("second-wrapper-of-a-block")
		}
		e.label(fmt.Sprintf("parse-known-%s", [...]string{"parsed", "processing", "accepted", "rejected", "failed"}[m.st]))
		// a processing block (and the last accepted one, which is always cached) comes back in its
		// verified state: the verified wrapper itself or at least one carrying the chain's output
		if e.ready && ((m.st == sProcessing && m.verified) || (id == e.last && m.verified)) {
			if h.Output == nil || h.Output.blk == nil || h.Output.id != id || h.Output.Digest != e.D[id] {
				return false, fmt.Errorf("ParseBlock(%s) of a %s block returned an unverified wrapper %s (output %s)", m.b, map[bool]string{true: "processing (verified)", false: "last accepted"}[m.st == sProcessing], h, h.Output)
			}
			if m.st == sProcessing && h != m.h {
				e.label("parse-of-processing-returned-another-object")
			}
		}
	case "po":
		// parse only: the engine learns a block (e.g. from gossip) and does not issue it yet
		if _, err := e.parseNew(pickRecent(e.candidates(), o.A), o.Inv); err != nil {
			return false, err
		}
	case "vf":
		// issue a block the engine learned earlier, through any wrapper it was ever handed
		var cands []ids.ID
		for id, m := range e.blocks {
			pm := e.blocks[m.b.Prnt]
			if (m.st == sParsed || m.st == sFailed) && !m.built && len(m.hs) > 0 && pm != nil &&
				(pm.st == sProcessing || m.b.Prnt == e.last) && (!e.ready || pm.verified) {
				cands = append(cands, id)
			}
		}
		if len(cands) == 0 {
			return true, nil
		}
		sort.Slice(cands, func(i, j int) bool { return e.blocks[cands[i]].b.Payload < e.blocks[cands[j]].b.Payload })
		m := e.blocks[pickRecent(cands, o.A)]
		w := o.B % len(m.hs)
		if w < 0 {
			w = -w
		}
		m.h = m.hs[w]
		if len(m.hs) > 1 && w < len(m.hs)-1 {
			e.label("verify-through-older-wrapper")
		}
		parent := m.b.Prnt
		if err := e.verify(m, 0); err != nil {
			return false, err
		}
		if m.st == sProcessing && parent == e.pref {
			if err := e.setPref(m.b.id); err != nil {
				return false, err
			}
		}
	case "dup":
		// the engine is sent the bytes of a block it has learned but not issued once more, after
		// the parsed-block cache has forgotten it: a second wrapper of the same block exists
		var cands []ids.ID
		for id, m := range e.blocks {
			if (m.st == sParsed || m.st == sFailed) && !m.built && len(m.hs) > 0 {
				cands = append(cands, id)
			}
		}
		if len(cands) == 0 {
			return true, nil
		}
		sort.Slice(cands, func(i, j int) bool { return e.blocks[cands[i]].b.Payload < e.blocks[cands[j]].b.Payload })
		m := e.blocks[pickRecent(cands, o.A)]
		for i := 0; i < 4; i++ { // more than any parsed-block cache size the generator draws
			var p ids.ID
			binary.BigEndian.PutUint64(p[:], e.nextPayload())
			b := newBlk(p, ^uint64(0), 1<<62, e.payload, false, 0)
			if h, err := e.vm.ParseBlock(e.ctx, b.raw); err != nil || h.ID() != b.id {
				return false, fmt.Errorf("ParseBlock(unrelated %s) = %v, %v", b, h, err)
			}
		}
		h, err := e.vm.ParseBlock(e.ctx, m.b.raw)
		if err != nil || h.ID() != m.b.id {
			return false, fmt.Errorf("ParseBlock(known %s) = %v, %v", m.b, h, err)
		}
		nw := len(m.hs)
		e.learn(m.b, h, false)
		if len(m.hs) > nw {
			e.label("second-wrapper-of-a-block")
			e.label("second-wrapper-of-an-unverified-block")
		}
	case "evict":
		// parse o.A+1 unrelated blocks: pushes older entries out of the parsed-block cache
		for i := 0; i <= o.A%4; i++ {
			var p ids.ID
			binary.BigEndian.PutUint64(p[:], e.nextPayload())
			b := newBlk(p, ^uint64(0), 1<<62, e.payload, false, 0)
			if h, err := e.vm.ParseBlock(e.ctx, b.raw); err != nil || h.ID() != b.id {
				return false, fmt.Errorf("ParseBlock(unrelated %s) = %v, %v", b, h, err)
			}
		}
	case "future":
		var p ids.ID
		binary.BigEndian.PutUint64(p[:], e.nextPayload())
		b := newBlk(p, ^uint64(0), 1<<62, e.payload, false, 0)
		h, err := e.vm.ParseBlock(e.ctx, b.raw)
		if err != nil || h.ID() != b.id || h.Height() != b.Hght {
			return false, fmt.Errorf("ParseBlock(unrelated %s) = %v, %v", b, h, err)
		}
	case "pref":
		id := pickRecent(e.candidates(), o.A)
		old := e.pref
		if _, ok := e.depthTo(old); ok {
			e.noteSwitch(old, id)
		}
		if err := e.setPref(id); err != nil {
			return false, err
		}
	case "accP":
		path := e.pathFromLast(e.pref)
		if o.A > 0 && o.A < len(path) {
			path = path[:o.A]
		}
		if len(path) == 0 || !e.pathOK(path) {
			return true, nil
		}
		if err := e.acceptPath(path); err != nil {
			return false, err
		}
		e.label("accept-preferred")
	case "accB":
		onPref := map[ids.ID]bool{}
		for _, id := range e.pathFromLast(e.pref) {
			onPref[id] = true
		}
		var cands []ids.ID
		for _, id := range e.processing {
			if !onPref[id] {
				cands = append(cands, id)
			}
		}
		if len(cands) == 0 {
			return true, nil
		}
		tgt := pickRecent(cands, o.A)
		path := e.pathFromLast(tgt)
		if !e.pathOK(path) {
			return true, nil
		}
		if o.B > 0 && o.B < len(path) {
			path = path[:o.B]
		}
		e.noteSwitch(e.pref, tgt)
		if err := e.acceptPath(path); err != nil {
			return false, err
		}
		if e.blocks[tgt].st == sProcessing {
			if err := e.setPref(tgt); err != nil {
				return false, err
			}
		}
		e.label("accept-non-preferred")
	case "hold":
		if e.held || !e.ready {
			return true, nil
		}
		e.ch.hold()
		e.held = true
		e.label("accepter-held")
	case "release":
		if !e.held {
			return true, nil
		}
		e.ch.release()
		e.held = false
	case "drain":
		if err := e.await(); err != nil {
			return false, err
		}
	default:
		return true, nil
	}
	return false, nil
}

// --- C21: health ---------------------------------------------------------------

func (e *eng) checkHealth(when string) error {
	if !e.finished {
		return nil
	}
	_, err := e.vm.HealthCheck(e.ctx)
	want := len(e.unresolved) > 0
	if !want && len(e.doomed) > 0 {
		// blocks that conflict with the accepted chain and whose rejection the engine still owes
		// cannot be re-verified against the accepted state at all: either answer is fine
		return nil
	}
	if want {
		e.healthSeen.unhealthy = true
	} else if e.healthSeen.unhealthy {
		e.healthSeen.healthy = true
	}
	if want && err == nil {
		return fmt.Errorf("%s: HealthCheck is healthy although %d processing block(s) that failed re-verification are not rejected yet", when, len(e.unresolved))
	}
	if !want && err != nil {
		return fmt.Errorf("%s: HealthCheck reports %v although every block that failed re-verification has been rejected", when, err)
	}
	return nil
}

func renderOps(ops []op) string {
	var sb strings.Builder
	for i, o := range ops {
		if i > 0 {
			sb.WriteByte(' ')
		}
		sb.WriteString(o.String())
	}
	return sb.String()
}

func sortedLabels(m map[string]bool) []string {
	out := make([]string, 0, len(m))
	for l := range m {
		out = append(out, l)
	}
	sort.Strings(out)
	return out
}
