package snowlife

import (
	"context"
	"encoding/json"
	"fmt"
	"sync"
	"testing"
	"time"

	"github.com/ava-labs/avalanchego/api/metrics"
	"github.com/ava-labs/avalanchego/ids"
	avasnow "github.com/ava-labs/avalanchego/snow"
	"github.com/ava-labs/avalanchego/snow/engine/common"
	"github.com/ava-labs/avalanchego/snow/engine/snowman/block"
	"github.com/ava-labs/avalanchego/utils/logging"
	"pgregory.net/rapid"

	"github.com/ava-labs/hypersdk/event"
	"github.com/ava-labs/hypersdk/snow"
	"github.com/ava-labs/hypersdk/verifharness/vstat"
)

// C18 at the snow.VM level: crash anywhere in the accept pipeline, restart on the same store.
//
// The node's durable state is a `disk`: the block index (what snow writes through
// ChainIndex.UpdateLastAccepted) and the chain's committed state (height, block id, running
// digests), written by the chain inside AcceptBlock like a real VM commits its state there. A
// crash is simulated by copying the disk at the crash point and abandoning the running VM; the
// restart is a fresh snow.VM whose chain initialises itself from the copy.

type committed struct {
	Height    uint64
	ID        ids.ID
	Digest    digest
	AccDigest digest
}

type disk struct {
	mu    sync.Mutex
	idx   *memIndex
	state committed
}

func (d *disk) clone() *disk {
	d.mu.Lock()
	defer d.mu.Unlock()
	d.idx.mu.Lock()
	defer d.idx.mu.Unlock()
	n := newMemIndex(&recorder{})
	for k, v := range d.idx.byID {
		n.byID[k] = v
	}
	for k, v := range d.idx.byHeight {
		n.byHeight[k] = v
	}
	n.last, n.hasLast = d.idx.last, d.idx.hasLast
	return &disk{idx: n, state: d.state}
}

func (d *disk) commit(c committed) {
	d.mu.Lock()
	d.state = c
	d.mu.Unlock()
}

func (d *disk) committed() committed {
	d.mu.Lock()
	defer d.mu.Unlock()
	return d.state
}

// crashIndex wraps the index so that a crash can be taken right after the index write of a
// given height (the engine's Accept has persisted the block but not queued it yet).
type crashIndex struct {
	*memIndex
	snapAfter uint64 // 0 = never
	snap      func()
}

func (c *crashIndex) UpdateLastAccepted(ctx context.Context, b *blk) error {
	err := c.memIndex.UpdateLastAccepted(ctx, b)
	if c.snapAfter != 0 && b.Hght == c.snapAfter && c.snap != nil {
		c.snap()
	}
	return err
}

type crashChain struct {
	d       *disk
	idx     *crashIndex
	genesis *blk

	mu        sync.Mutex
	delivered []uint64 // accepted notifications of this life, in order
	accCalls  []accCall
	verCalls  []verCall

	// park the accepter inside AcceptBlock(parkAt): phase "entry" (before the state commit) or
	// "committed" (after it, before returning to snow, i.e. before the subscribers are notified)
	parkAt    uint64
	parkPhase string
	parked    chan struct{}
	release   chan struct{}

	// crash during recovery: copy the disk inside the n-th AcceptBlock of this life
	snapCall  int
	snapPhase string
	snap      func()
	nAccept   int

	payload uint64
}

func newCrashChain(d *disk) *crashChain {
	return &crashChain{d: d, idx: &crashIndex{memIndex: d.idx}, parked: make(chan struct{}), release: make(chan struct{})}
}

func c18Genesis() (*blk, *out, *acc) {
	g := newBlk(ids.Empty, 0, 1_700_000_000_000, 0, false, 0)
	o := &out{blk: g, Digest: nextDigest('o', digest{}, g.id), Src: "genesis"}
	return g, o, &acc{out: o, AccDigest: nextDigest('a', digest{}, g.id)}
}

func (c *crashChain) Initialize(ctx context.Context, _ snow.ChainInput, vm *snow.VM[*blk, *out, *acc]) (snow.ChainIndex[*blk], *out, *acc, bool, error) {
	vm.AddAcceptedSub(event.SubscriptionFunc[*acc]{NotifyF: func(_ context.Context, a *acc) error {
		c.mu.Lock()
		c.delivered = append(c.delivered, a.Hght)
		c.mu.Unlock()
		return nil
	}})
	if _, err := c.d.idx.GetLastAcceptedHeight(ctx); err != nil {
		// first start: write genesis
		g, o, a := c18Genesis()
		c.d.idx.store(g)
		c.d.commit(committed{Height: 0, ID: g.id, Digest: o.Digest, AccDigest: a.AccDigest})
	}
	st := c.d.committed()
	b, err := c.d.idx.GetBlockByHeight(ctx, st.Height)
	if err != nil {
		return nil, nil, nil, false, fmt.Errorf("harness chain: committed block %d not in the index: %w", st.Height, err)
	}
	if b.id != st.ID {
		return nil, nil, nil, false, fmt.Errorf("harness chain: index block at %d is not the committed block", st.Height)
	}
	o := &out{blk: b, Digest: st.Digest, Src: "disk"}
	return c.idx, o, &acc{out: o, AccDigest: st.AccDigest}, true, nil
}

func (*crashChain) SetConsensusIndex(*snow.ConsensusIndex[*blk, *out, *acc]) {}

func (c *crashChain) BuildBlock(_ context.Context, _ *block.Context, parent *out) (*blk, *out, error) {
	if parent == nil || parent.blk == nil {
		return nil, nil, errNilParent
	}
	b := newBlk(parent.id, parent.Hght+1, parent.Tm+1, c.payload, false, 0)
	return b, &out{blk: b, Digest: nextDigest('o', parent.Digest, b.id), Src: "build"}, nil
}

func (*crashChain) ParseBlock(_ context.Context, raw []byte) (*blk, error) { return parseBlk(raw) }

func (c *crashChain) VerifyBlock(_ context.Context, parent *out, b *blk) (*out, error) {
	c.mu.Lock()
	c.verCalls = append(c.verCalls, verCall{parent: parent, b: b, ok: parent != nil && parent.blk != nil})
	c.mu.Unlock()
	if parent == nil || parent.blk == nil || b == nil {
		return nil, errNilParent
	}
	return &out{blk: b, Digest: nextDigest('o', parent.Digest, b.id), Src: "verify"}, nil
}

func (c *crashChain) AcceptBlock(_ context.Context, parent *acc, o *out) (*acc, error) {
	c.mu.Lock()
	c.nAccept++
	n := c.nAccept
	c.accCalls = append(c.accCalls, accCall{parent: parent, o: o})
	c.mu.Unlock()
	if o == nil || o.blk == nil {
		return &acc{out: &out{blk: newBlk(ids.Empty, 0, 0, 0, false, 0)}}, nil
	}
	if o.Hght == c.parkAt && c.parkPhase == "entry" {
		close(c.parked)
		<-c.release
	}
	if n == c.snapCall && c.snapPhase == "entry" && c.snap != nil {
		c.snap()
	}
	var pd digest
	if parent != nil {
		pd = parent.AccDigest
	}
	a := &acc{out: o, AccDigest: nextDigest('a', pd, o.id)}
	c.d.commit(committed{Height: o.Hght, ID: o.id, Digest: o.Digest, AccDigest: a.AccDigest}) // the state commit
	if o.Hght == c.parkAt && c.parkPhase == "committed" {
		close(c.parked)
		<-c.release
	}
	if n == c.snapCall && c.snapPhase == "committed" && c.snap != nil {
		c.snap()
	}
	return a, nil
}

func (c *crashChain) deliveredCopy() []uint64 {
	c.mu.Lock()
	defer c.mu.Unlock()
	return append([]uint64(nil), c.delivered...)
}

func c18StartVM(ch *crashChain, acceptedW int) (*snow.VM[*blk, *out, *acc], error) {
	vm := snow.NewVM[*blk, *out, *acc]("verif", ch)
	cfg, err := json.Marshal(map[string]any{snow.SnowVMConfigKey: snow.VMConfig{ParsedBlockCacheSize: 2, AcceptedBlockWindowCache: acceptedW}})
	if err != nil {
		return nil, err
	}
	sctx := &avasnow.Context{Log: logging.NoLog{}, Metrics: metrics.NewPrefixGatherer()}
	return vm, vm.Initialize(context.Background(), sctx, nil, nil, nil, cfg, make(chan common.Message, 8), nil, nil)
}

type c18Case struct {
	N         int    `json:"n"`         // blocks the network produces (1..8)
	AcceptedW int    `json:"acceptedW"` // accepted-block window cache (2..4)
	T         int    `json:"t"`         // blocks the engine accepted (index tip) when the node dies
	Backlog   int    `json:"backlog"`   // of those, how many the accepter had not finished (0..min(T,5))
	Phase     string `json:"phase"`     // where the accepter is in block T-Backlog+1: "entry" | "committed" (ignored when Backlog = 0)
	IndexOnly bool   `json:"indexOnly"` // the node dies inside Accept(T+1) right after the index write, before queueing
	// optional second crash while the restarted node re-processes its backlog
	RecCall  int    `json:"recCall,omitempty"` // die inside the RecCall-th AcceptBlock of the recovery (1-based, modulo the backlog)
	RecPhase string `json:"recPhase,omitempty"`
	Post     int    `json:"post"` // blocks built/verified/accepted on top after the restart (1..3)
}

func c18Gen(rt *rapid.T) c18Case {
	c := c18Case{N: rapid.IntRange(1, 8).Draw(rt, "n"), AcceptedW: rapid.IntRange(2, 4).Draw(rt, "acceptedW"), Post: rapid.IntRange(1, 3).Draw(rt, "post")}
	c.IndexOnly = rapid.IntRange(0, 3).Draw(rt, "indexOnly") == 0
	maxT := c.N
	if c.IndexOnly {
		maxT = c.N - 1
	}
	c.T = rapid.IntRange(0, maxT).Draw(rt, "t")
	if !c.IndexOnly && c.T == 0 {
		c.T = 1
	}
	c.Backlog = rapid.SampledFrom([]int{0, 1, 2, 2, 3, 3, 4, 5}).Draw(rt, "backlog")
	if c.Backlog > c.T {
		c.Backlog = c.T
	}
	c.Phase = rapid.SampledFrom([]string{"entry", "entry", "committed"}).Draw(rt, "phase")
	if rapid.IntRange(0, 2).Draw(rt, "rec") == 0 {
		c.RecCall = rapid.IntRange(1, 5).Draw(rt, "recCall")
		c.RecPhase = rapid.SampledFrom([]string{"entry", "committed"}).Draw(rt, "recPhase")
	}
	return c
}

const findingC18Undelivered = "C18-undelivered-after-commit"

func c18Run(c c18Case, st *vstat.Stats) error {
	if c.N < 1 || c.N > 16 || c.T < 0 || c.T > c.N || c.Backlog < 0 || c.Backlog > c.T || c.Backlog > 8 || c.AcceptedW < 1 ||
		(c.IndexOnly && c.T >= c.N) || (!c.IndexOnly && c.T == 0) || (c.Phase != "entry" && c.Phase != "committed") || c.Post < 0 || c.Post > 8 {
		return fmt.Errorf("harness: malformed case")
	}
	ctx := context.Background()
	// the committed-but-unnotified block is re-delivered only if it is the index tip: a later
	// indexed block makes it the known finding C18-undelivered-after-commit
	committedUnnotified := c.Backlog > 0 && c.Phase == "committed"
	laterIndexed := c.Backlog > 1 || c.IndexOnly
	if committedUnnotified && laterIndexed && st.Known(findingC18Undelivered) {
		st.Exclude(findingC18Undelivered)
		c.Phase = "entry"
		committedUnnotified = false
	}

	// the never-crashed reference: digests of executing / accepting the chain
	g, gOut, gAcc := c18Genesis()
	blocks := []*blk{g}
	D, AD := []digest{gOut.Digest}, []digest{gAcc.AccDigest}
	addBlock := func(payload uint64) *blk {
		p := blocks[len(blocks)-1]
		b := newBlk(p.id, p.Hght+1, p.Tm+1, payload, false, 0)
		blocks = append(blocks, b)
		D = append(D, nextDigest('o', D[len(D)-1], b.id))
		AD = append(AD, nextDigest('a', AD[len(AD)-1], b.id))
		return b
	}
	for i := 1; i <= c.N; i++ {
		addBlock(uint64(i))
	}

	// ---- life 1
	d1 := &disk{idx: newMemIndex(&recorder{})}
	ch1 := newCrashChain(d1)
	processed := c.T - c.Backlog
	if c.Backlog > 0 {
		ch1.parkAt, ch1.parkPhase = uint64(processed+1), c.Phase
	}
	vm1, err := c18StartVM(ch1, c.AcceptedW)
	if err != nil {
		return fmt.Errorf("harness: first start failed: %w", err)
	}
	released := false
	stop1 := func() {
		if !released {
			released = true
			close(ch1.release)
		}
		_ = vm1.Shutdown(ctx)
	}
	defer stop1()
	var crashDisk *disk
	var life1 []uint64
	takeCrash := func() {
		crashDisk = d1.clone()
		life1 = ch1.deliveredCopy()
	}
	accept := func(h int) error {
		sb, err := vm1.ParseBlock(ctx, blocks[h].raw)
		if err != nil {
			return fmt.Errorf("harness: life 1 ParseBlock(%d): %w", h, err)
		}
		if err := sb.Verify(ctx); err != nil {
			return fmt.Errorf("harness: life 1 Verify(%d): %w", h, err)
		}
		if err := sb.Accept(ctx); err != nil {
			return fmt.Errorf("harness: life 1 Accept(%d): %w", h, err)
		}
		return nil
	}
	for h := 1; h <= c.T; h++ {
		if err := accept(h); err != nil {
			return err
		}
	}
	// wait until the accepter is where the case wants it
	deadline := time.Now().Add(awaitBound)
	if c.Backlog > 0 {
		select {
		case <-ch1.parked:
		case <-time.After(awaitBound):
			return errInconclusive{"the accepter never reached the parking point"}
		}
	} else {
		for {
			dl := ch1.deliveredCopy()
			if len(dl) > 0 && dl[len(dl)-1] == uint64(c.T) {
				break
			}
			if time.Now().After(deadline) {
				return errInconclusive{"the accepter did not drain"}
			}
			time.Sleep(50 * time.Microsecond)
		}
	}
	tip := c.T
	if c.IndexOnly {
		// the node dies inside Accept(T+1), right after the block index was updated
		ch1.idx.snapAfter, ch1.idx.snap = uint64(c.T+1), takeCrash
		if err := accept(c.T + 1); err != nil {
			return err
		}
		tip = c.T + 1
		if crashDisk == nil {
			return fmt.Errorf("harness: index write of block %d not observed", tip)
		}
	} else {
		takeCrash()
	}
	stop1() // the old process is gone; whatever it still does happens on its own disk

	stateH := int(crashDisk.committed().Height)
	backlog := tip - stateH
	labels := []string{fmt.Sprintf("backlog=%d", min(backlog, 4)), "phase:" + map[bool]string{true: c.Phase, false: "idle"}[c.Backlog > 0]}
	// the labels the vm-level C18 stages call essential (same meaning at this level)
	labels = append(labels, map[bool]string{true: "backlog>=1", false: "backlog=0"}[backlog >= 1],
		map[bool]string{true: "index-state>=2", false: "index-state<=1"}[backlog >= 2])
	if c.IndexOnly {
		labels = append(labels, "crash-after-index-write", "side:consensus-thread")
	} else if c.Backlog > 0 {
		labels = append(labels, "side:accepter-thread")
	}
	if committedUnnotified {
		labels = append(labels, "committed-unnotified")
	}

	// ---- restart(s)
	lives := [][]uint64{life1}
	disk2 := crashDisk
	if c.RecCall > 0 && backlog > 0 {
		// second crash while the backlog is re-processed (inside Initialize)
		work := disk2.clone() // the restarted process writes to the disk; the second crash is a copy of that
		chr := newCrashChain(work)
		var second *disk
		var lifeR []uint64
		chr.snapCall, chr.snapPhase = 1+(c.RecCall-1)%backlog, c.RecPhase
		if chr.snapPhase != "committed" {
			chr.snapPhase = "entry"
		}
		chr.snap = func() { second, lifeR = work.clone(), chr.deliveredCopy() }
		vmr, err := c18StartVM(chr, c.AcceptedW)
		if err != nil {
			return fmt.Errorf("restart on (index tip %d, committed state %d) failed: %w", tip, stateH, err)
		}
		_ = vmr.Shutdown(ctx)
		if second == nil {
			return fmt.Errorf("restart on (index tip %d, committed state %d): recovery made fewer than %d AcceptBlock calls", tip, stateH, chr.snapCall)
		}
		// (a committed-but-unnotified block of the recovery is the same known finding)
		if chr.snapPhase == "committed" && int(second.committed().Height) < tip && st.Known(findingC18Undelivered) {
			st.Exclude(findingC18Undelivered)
		} else {
			lives = append(lives, lifeR)
			disk2 = second
			labels = append(labels, "crash-during-recovery")
		}
	}
	stateH2 := int(disk2.committed().Height)
	ch2 := newCrashChain(disk2)
	vm2, err := c18StartVM(ch2, c.AcceptedW)
	if err != nil {
		st.Case(false, fmt.Sprintf("%+v", c), labels...)
		return fmt.Errorf("restart on (index tip %d, committed state %d) failed: %w", tip, stateH2, err)
	}
	defer func() { _ = vm2.Shutdown(ctx) }()
	nt := backlog >= 2 || len(lives) > 1
	st.Case(nt, fmt.Sprintf("%+v", c), labels...)
	st.Sample(nt, map[string]any{"case": fmt.Sprintf("%+v", c), "index_tip": tip, "committed_state": stateH, "lives": len(lives) + 1})

	// 1. last accepted = index tip, with the state of a node that never crashed
	la, err := vm2.LastAccepted(ctx)
	if err != nil || la != blocks[tip].id {
		return fmt.Errorf("after the restart LastAccepted = %s/%v, the index tip is %s", la, err, blocks[tip])
	}
	a, err := vm2.GetConsensusIndex().GetLastAccepted(ctx)
	if err != nil {
		return fmt.Errorf("after the restart GetLastAccepted failed: %w", err)
	}
	if a == nil || a.out == nil || a.blk == nil || a.id != blocks[tip].id || a.Digest != D[tip] || a.AccDigest != AD[tip] {
		return fmt.Errorf("after the restart the last accepted state is %s, a node that never crashed has block %s d=%s a=%s", a, blocks[tip], D[tip], AD[tip])
	}
	if cs := disk2.committed(); int(cs.Height) != tip || cs.ID != blocks[tip].id || cs.Digest != D[tip] || cs.AccDigest != AD[tip] {
		return fmt.Errorf("after the restart the committed state is height %d d=%s, a node that never crashed has height %d d=%s", cs.Height, cs.Digest, tip, D[tip])
	}
	// the recovery executed each missing block once, in order, each on its parent
	ch2.mu.Lock()
	acs, vcs := append([]accCall(nil), ch2.accCalls...), append([]verCall(nil), ch2.verCalls...)
	ch2.mu.Unlock()
	if len(acs) != tip-stateH2 || len(vcs) != tip-stateH2 {
		return fmt.Errorf("recovery from committed state %d to index tip %d made %d VerifyBlock and %d AcceptBlock calls", stateH2, tip, len(vcs), len(acs))
	}
	for i := range acs {
		h := stateH2 + 1 + i
		if acs[i].o == nil || acs[i].o.id != blocks[h].id || acs[i].o.Digest != D[h] || acs[i].parent == nil || acs[i].parent.AccDigest != AD[h-1] ||
			vcs[i].b == nil || vcs[i].b.id != blocks[h].id || vcs[i].parent == nil || vcs[i].parent.Digest != D[h-1] {
			return fmt.Errorf("recovery step %d did not execute block %s on its parent's state", i, blocks[h])
		}
	}
	// 2. every accepted block delivered at least once across the restart(s), in height order
	lives = append(lives, ch2.deliveredCopy())
	seen := make([]bool, tip+1)
	for li, l := range lives {
		for i, h := range l {
			if int(h) > tip {
				return fmt.Errorf("life %d delivered height %d above the index tip %d", li+1, h, tip)
			}
			if i > 0 && (h < l[i-1] || h > l[i-1]+1) {
				return fmt.Errorf("life %d delivered accepted blocks out of height order: %v", li+1, l)
			}
			seen[h] = true
		}
	}
	for h := 1; h <= tip; h++ {
		if !seen[h] {
			return fmt.Errorf("accepted block %d was never delivered to the accepted subscribers (index tip %d, committed state at the crash %d, deliveries per life %v)", h, tip, stateH, lives)
		}
	}
	// 3. normal operation continues on top (of the tip: the network's later blocks never reached this node)
	blocks, D, AD = blocks[:tip+1], D[:tip+1], AD[:tip+1]
	base := len(ch2.deliveredCopy())
	for i := 0; i < c.Post; i++ {
		var sb *sblk
		if i%2 == 0 {
			nb := addBlock(uint64(100 + i))
			if sb, err = vm2.ParseBlock(ctx, nb.raw); err != nil {
				return fmt.Errorf("after the restart ParseBlock(%s) failed: %w", nb, err)
			}
		} else {
			ch2.payload = uint64(100 + i)
			if sb, err = vm2.BuildBlock(ctx); err != nil {
				return fmt.Errorf("after the restart BuildBlock failed: %w", err)
			}
			nb := addBlock(uint64(100 + i))
			if sb.ID() != nb.id {
				return fmt.Errorf("after the restart BuildBlock built %s, expected a child of the tip %s", sb, nb)
			}
		}
		if err := sb.Verify(ctx); err != nil {
			return fmt.Errorf("after the restart Verify(%s) failed: %w", sb, err)
		}
		if err := vm2.SetPreference(ctx, sb.ID()); err != nil {
			return err
		}
		if err := sb.Accept(ctx); err != nil {
			return fmt.Errorf("after the restart Accept(%s) failed: %w", sb, err)
		}
	}
	top := tip + c.Post
	deadline = time.Now().Add(awaitBound)
	for {
		a, err := vm2.GetConsensusIndex().GetLastAccepted(ctx)
		if err == nil && a != nil && a.blk != nil && a.id == blocks[top].id {
			if a.Digest != D[top] || a.AccDigest != AD[top] {
				return fmt.Errorf("blocks accepted after the restart ended in state %s, want d=%s a=%s", a, D[top], AD[top])
			}
			break
		}
		if time.Now().After(deadline) {
			return errInconclusive{"blocks accepted after the restart were not processed in time"}
		}
		time.Sleep(50 * time.Microsecond)
	}
	dl := ch2.deliveredCopy()[base:]
	if len(dl) != c.Post {
		return fmt.Errorf("after the restart %d new blocks were accepted, %d delivered: %v", c.Post, len(dl), dl)
	}
	for i, h := range dl {
		if int(h) != tip+1+i {
			return fmt.Errorf("after the restart new blocks were delivered as %v", dl)
		}
	}
	return nil
}

const c18SnowRule = "snow.VM with a small chain whose durable state (block index + committed chain state written inside AcceptBlock) survives a simulated crash: chain of 1..8 blocks accepted faster than processed (accepter parked inside AcceptBlock before or after the state commit, backlog 0..5, or the node dying inside Accept right after the index write), optional second crash inside the recovery's re-processing, restart on the copied store with a fresh snow.VM; non-trivial = index tip >= 2 ahead of the committed state or a crash during recovery; distinct by the whole case"

func TestC18SnowRestart(t *testing.T) {
	st := vstat.New(t, "C18", c18SnowRule)
	st.Assumption("snow level: a crash is a copy of the durable store at the crash point (index writes and the chain's state commit are atomic single writes); the old process is abandoned")
	rapid.Check(t, func(rt *rapid.T) {
		c := c18Gen(rt)
		runGuarded(rt, st, c, func() error { return c18Run(c, st) })
	})
}

func TestC18SnowRestartReplay(t *testing.T) {
	vstat.Replay(t, "C18", func(raw []byte) error {
		var c c18Case
		if err := json.Unmarshal(raw, &c); err != nil {
			return err
		}
		return c18Run(c, vstat.New(nil, "C18", ""))
	})
}
