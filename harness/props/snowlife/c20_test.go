package snowlife

import (
	"encoding/json"
	"errors"
	"fmt"
	"testing"

	"pgregory.net/rapid"

	"github.com/ava-labs/hypersdk/verifharness/vstat"
)

// C20: the consensus wrapper drives the chain through a valid block lifecycle.

type c20Case struct {
	ParsedW   int  `json:"parsedW"`
	AcceptedW int  `json:"acceptedW"`
	Ops       []op `json:"ops"`
}

var recencyGen = rapid.SampledFrom([]int{0, 0, 0, 0, 0, 1, 1, 1, 2, 2, 3, 5})

func c20OpGen() *rapid.Generator[op] {
	return rapid.Custom(func(rt *rapid.T) op {
		switch k := rapid.IntRange(0, 99).Draw(rt, "kind"); {
		case k < 18:
			return op{K: "pv", A: recencyGen.Draw(rt, "parent")}
		case k < 23:
			return op{K: "pv", A: recencyGen.Draw(rt, "parent"), Inv: true}
		case k < 31:
			return op{K: "po", A: recencyGen.Draw(rt, "parent"), Inv: rapid.IntRange(0, 5).Draw(rt, "inv") == 0}
		case k < 41:
			return op{K: "vf", A: recencyGen.Draw(rt, "which"), B: rapid.SampledFrom([]int{0, 0, 0, 0, 1, 2, 3}).Draw(rt, "wrapper")}
		case k < 50:
			return op{K: "build", A: rapid.SampledFrom([]int{0, 0, 0, 1, 1, 2}).Draw(rt, "ctx")}
		case k < 58:
			return op{K: "pref", A: recencyGen.Draw(rt, "pref")}
		case k < 66:
			return op{K: "accP", A: rapid.SampledFrom([]int{0, 0, 1, 2}).Draw(rt, "n")}
		case k < 72:
			return op{K: "accB", A: recencyGen.Draw(rt, "branch"), B: rapid.SampledFrom([]int{0, 0, 1, 2}).Draw(rt, "n")}
		case k < 80:
			return op{K: "pk", A: rapid.SampledFrom([]int{0, 0, 0, 1, 1, 2, 3, 5, 8, 12}).Draw(rt, "known"), B: rapid.SampledFrom([]int{0, 0, 1, 1, 2, 2}).Draw(rt, "class")}
		case k < 82:
			return op{K: "evict", A: rapid.IntRange(0, 3).Draw(rt, "fillers")}
		case k < 90:
			return op{K: "dup", A: recencyGen.Draw(rt, "which")}
		case k < 94:
			return op{K: "hold"}
		case k < 97:
			return op{K: "release"}
		default:
			return op{K: "drain"}
		}
	})
}

// opsGen draws the length first (rapid's own slice lengths are heavily biased to short lists).
func opsGen(g *rapid.Generator[op], rt *rapid.T) []op {
	n := rapid.SampledFrom([]int{1, 2, 3, 5, 8, 12, 16, 20, 24, 28, 32, 36, 40}).Draw(rt, "nops")
	return rapid.SliceOfN(g, n, n).Draw(rt, "ops")
}

func c20Gen(rt *rapid.T) c20Case {
	return c20Case{
		ParsedW:   rapid.IntRange(1, 3).Draw(rt, "parsedW"),
		AcceptedW: rapid.IntRange(1, 3).Draw(rt, "acceptedW"),
		Ops:       opsGen(c20OpGen(), rt),
	}
}

func c20Run(c c20Case, st *vstat.Stats) (err error) {
	if c.ParsedW < 1 || c.AcceptedW < 1 {
		return fmt.Errorf("harness: malformed case")
	}
	e, err := newEngine(st, c.ParsedW, c.AcceptedW, true, false)
	if err != nil {
		return err
	}
	defer e.shutdown()
	executed := 0
	record := func() {
		nt := e.labels["deep-fork-switch"] || e.labels["disk-lookup-after-eviction"]
		canon := fmt.Sprintf("%d/%d %s", c.ParsedW, c.AcceptedW, renderOps(c.Ops))
		ls := sortedLabels(e.labels)
		ls = append(ls, fmt.Sprintf("acceptedW=%d", c.AcceptedW))
		if len(e.chain) > 1 {
			ls = append(ls, "some-accept")
		}
		if len(e.expRej) > 0 {
			ls = append(ls, "some-reject")
		}
		st.Case(nt, canon, ls...)
		st.Sample(nt, map[string]any{"w": fmt.Sprintf("%d/%d", c.ParsedW, c.AcceptedW), "ops": renderOps(c.Ops), "accepted": len(e.chain) - 1, "rejected": len(e.expRej), "executed_ops": executed})
	}
	defer record()
	for i, o := range c.Ops {
		skipped, serr := e.step(o)
		if serr != nil {
			return wrapStep(i, o, serr)
		}
		if skipped {
			st.Skip(o.K)
			continue
		}
		executed++
		s := e.rec.snap()
		if err := e.checkAccepts(s, false); err != nil {
			return wrapStep(i, o, err)
		}
		if err := e.checkRejects(s); err != nil {
			return wrapStep(i, o, err)
		}
		if err := e.checkOnce(s); err != nil {
			return wrapStep(i, o, err)
		}
		if err := e.sweep(); err != nil {
			return wrapStep(i, o, err)
		}
	}
	if e.held {
		e.ch.release()
		e.held = false
	}
	if err := e.await(); err != nil {
		return wrapStep(len(c.Ops), op{K: "final-drain"}, err)
	}
	if err := e.checkRejects(e.rec.snap()); err != nil {
		return wrapStep(len(c.Ops), op{K: "final"}, err)
	}
	if err := e.sweep(); err != nil {
		return wrapStep(len(c.Ops), op{K: "final"}, err)
	}
	// after the queue drained the executed tip is the engine's last accepted block
	// (the accepter publishes the executed tip just after it sent the notification: wait for it)
	return e.awaitExecutedTip()
}

func wrapStep(i int, o op, err error) error {
	var inc errInconclusive
	if errors.As(err, &inc) {
		return err
	}
	return fmt.Errorf("step %d %s: %w", i, o, err)
}

// runGuarded keeps a bare timeout out of the violation path: it fails the test
// without a replay file, which the driver reports as infrastructure trouble.
func runGuarded(rt *rapid.T, st *vstat.Stats, c any, f func() error) {
	var inc error
	vstat.Run(rt, st, c, func() error {
		err := f()
		var ie errInconclusive
		if errors.As(err, &ie) {
			inc = err
			return nil
		}
		return err
	})
	if inc != nil {
		rt.Fatalf("%v", inc)
	}
}

const c20Rule = "engine op lists (1..40 ops: build on preference with/without P-chain context, parse+verify valid/invalid child of a processing or the last accepted block, parse known block, set preference, accept preferred chain / non-preferred branch (whole or partial, siblings rejected transitively), hold/release/drain of the async accepter) against a recording chain with parsed/accepted caches of size 1..3; non-trivial = a preference switch or accept across a fork with a side of depth >=2, or an accepted-block lookup served from the index after cache eviction; distinct by cache sizes + op list"

func TestC20(t *testing.T) {
	st := vstat.New(t, "C20", c20Rule)
	st.Assumption("engine calls are sequential (snowman holds the chain context lock); concurrency is the wrapper's own async accepter, whose schedule the harness owns through a gate in AcceptBlock, plus lookups issued from inside the chain/index callbacks")
	st.Assumption("the engine model follows snowman: Verify only on children of processing/last accepted blocks, Accept bottom-up on a chain of verified blocks, siblings rejected transitively parent first")
	rapid.Check(t, func(rt *rapid.T) {
		c := c20Gen(rt)
		runGuarded(rt, st, c, func() error { return c20Run(c, st) })
	})
}

func TestC20Replay(t *testing.T) {
	vstat.Replay(t, "C20", func(raw []byte) error {
		var sc c20StressCase // a case of the thorough-tier stress stage
		if err := json.Unmarshal(raw, &sc); err == nil && sc.Accepts > 0 {
			return c20StressRun(sc, vstat.New(nil, "C20", ""))
		}
		var c c20Case
		if err := json.Unmarshal(raw, &c); err != nil {
			return err
		}
		return c20Run(c, vstat.New(nil, "C20", ""))
	})
}
