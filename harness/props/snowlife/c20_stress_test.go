package snowlife

import (
	"fmt"
	"sync"
	"sync/atomic"
	"testing"

	"github.com/ava-labs/avalanchego/ids"

	"github.com/ava-labs/hypersdk/verifharness/vstat"
)

// findingF30: VM.GetBlockByHeight / GetBlockIDAtHeight read v.lastAcceptedBlock twice without
// metaLock (compare the height of one value, return the id of the next), so a lookup made off
// the engine thread while the engine accepts the next block can return the block one above.
const findingF30 = "C20-height-lookup-torn-read"

func knownF30(st *vstat.Stats) bool {
	return st.Known(findingF30) || st.Known("C21-height-lookup-torn-read")
}

// C20 stress stage (thorough tier): readers off the engine thread (an API goroutine using the
// consensus index, or the chain's own AcceptBlock) ask for the block at the height of the block
// they last saw accepted while the engine keeps accepting. Only a wrong answer is a violation;
// nothing here depends on how fast anything runs.
type c20StressCase struct {
	Accepts   int `json:"accepts"`
	Readers   int `json:"readers"`
	AcceptedW int `json:"acceptedW"`
}

func c20StressRun(c c20StressCase, st *vstat.Stats) error {
	if knownF30(st) {
		st.Exclude(findingF30)
		st.Case(false, "excluded")
		return nil
	}
	e, err := newEngine(st, 2, c.AcceptedW, true, false)
	if err != nil {
		return err
	}
	defer e.shutdown()
	var (
		byH   sync.Map
		stop  atomic.Bool
		reads atomic.Int64
		wg    sync.WaitGroup
		mu    sync.Mutex
		bad   error
	)
	fail := func(err error) {
		mu.Lock()
		if bad == nil {
			bad = err
		}
		mu.Unlock()
	}
	for r := 0; r < c.Readers; r++ {
		wg.Add(1)
		go func() {
			defer wg.Done()
			for !stop.Load() {
				h := e.vm.LastAcceptedBlock(e.ctx).Height()
				w, ok := byH.Load(h)
				if !ok {
					continue
				}
				want := w.(ids.ID)
				reads.Add(1)
				if id, err := e.vm.GetBlockIDAtHeight(e.ctx, h); err == nil && id != want {
					fail(fmt.Errorf("GetBlockIDAtHeight(%d) returned %s while the engine accepted the next block, accepted chain has %s", h, id, want))
				}
				if b, err := e.ch.ci.GetBlockByHeight(e.ctx, h); err == nil && b.id != want {
					fail(fmt.Errorf("ConsensusIndex.GetBlockByHeight(%d) returned %s while the engine accepted the next block, accepted chain has %s", h, b, want))
				}
			}
		}()
	}
	for i := 0; i < c.Accepts && !stop.Load(); i++ {
		m, err := e.parseNew(e.last, false)
		if err == nil {
			err = m.h.Verify(e.ctx)
		}
		if err == nil {
			byH.Store(m.b.Hght, m.b.id)
			err = m.h.Accept(e.ctx)
		}
		if err != nil {
			stop.Store(true)
			wg.Wait()
			return fmt.Errorf("harness: %w", err)
		}
		e.last = m.b.id
		mu.Lock()
		b := bad
		mu.Unlock()
		if b != nil {
			break
		}
	}
	stop.Store(true)
	wg.Wait()
	st.Case(true, fmt.Sprintf("%d/%d/%d", c.Accepts, c.Readers, c.AcceptedW), "concurrent-height-lookups")
	st.LabelN("height-lookups-during-accepts", reads.Load())
	st.Sample(true, map[string]any{"accepts": c.Accepts, "readers": c.Readers, "acceptedW": c.AcceptedW, "lookups": reads.Load()})
	return bad
}

func TestC20HeightLookupStress(t *testing.T) {
	st := vstat.New(t, "C20", "stress: 2-4 reader goroutines look the last accepted height up by height while the engine accepts 20000 blocks; a wrong block is a violation")
	for _, c := range []c20StressCase{{20000, 2, 1}, {20000, 4, 3}} {
		c := c
		vstat.Run(t, st, c, func() error { return c20StressRun(c, st) })
	}
}
