//go:build verif

package crash

import (
	"context"
	"os"
	"testing"
)

func TestC18DevProducer(t *testing.T) {
	if os.Getenv("C18_DEV") == "" {
		t.Skip()
	}
	for i := 0; i < 10; i++ {
		dir := t.TempDir()
		_, err := produceChain(context.Background(), dir)
		if err != nil {
			t.Fatalf("run %d: %v", i, err)
		}
	}
}
