//go:build verif

package crash

import (
	"context"
	"encoding/json"
	"fmt"
	"os"
	"runtime/pprof"
	"sync"
	"sync/atomic"
	"testing"
	"time"

	avasnow "github.com/ava-labs/avalanchego/snow"

	"github.com/ava-labs/hypersdk/chain"
	"github.com/ava-labs/hypersdk/internal/verifhook"
)

// Child processes are the test binary itself, re-entered through TestMain when
// C18_CHILD names a parameter file. They never touch vstat / rapid.

// a child never runs longer than this (a node start takes 50-100 ms on an idle
// machine, but tens of seconds have been seen on a heavily oversubscribed one)
const childWatchdog = 150 * time.Second

const (
	exitCrashPoint = 77 // the generated crash point was reached (os.Exit inside the hook)
	exitChildHung  = 88 // the child's own watchdog fired: inconclusive, never a verdict
	exitChildSetup = 89 // the child could not even set up (bad parameters, producer data unreadable)
)

// the seven hook points of H1, in pipeline order
const (
	ptIndexUpdated = "index-updated"        // snow Accept: chain index batch written (consensus thread)
	ptQueued       = "queued"               // snow Accept: block handed to the accepted queue (consensus thread)
	ptProcessStart = "process-start"        // snow processAccept entry (accepter thread)
	ptResults      = "results-written"      // vm AcceptBlock: last execution results written
	ptCommitted    = "state-committed"      // vm AcceptBlock: state view committed to disk
	ptChainAcc     = "chain-accepted"       // snow accept: chain.AcceptBlock returned
	ptNotified     = "subscribers-notified" // snow processAccept: accepted subscribers notified
)

var allPoints = []string{ptIndexUpdated, ptQueued, ptProcessStart, ptResults, ptCommitted, ptChainAcc, ptNotified}

func consensusPoint(p string) bool { return p == ptIndexUpdated || p == ptQueued }

type childParams struct {
	Mode      string `json:"mode"` // "follow" | "restart"
	Dir       string `json:"dir"`  // chain data directory of the node (persists across children)
	ChainFile string `json:"chain_file"`
	SubLog    string `json:"sub_log"`  // accepted-subscriber log of this process
	Progress  string `json:"progress"` // hook-point log of this process
	Report    string `json:"report"`   // restart: where to write the report
	Boot      bool   `json:"boot"`     // follow: stay in Bootstrapping while accepting

	// follow
	Point     string `json:"point"`      // crash point ("" = never exit: SIGKILL mode)
	K         uint64 `json:"k"`          // crash at Point of block K
	Hold      uint64 `json:"hold"`       // accepter is held at process-start(Hold) until Target is indexed (0 = no hold)
	SyncBelow uint64 `json:"sync_below"` // heights < SyncBelow are processed completely before the next accept
	Target    uint64 `json:"target"`     // consensus thread accepts heights 1..Target
	// the consensus thread stops for good inside Accept(RaceAtQueued), right after
	// queueing the block, and releases the held accepter from there (0 = off)
	RaceAtQueued uint64 `json:"race_at_queued"`

	// restart
	CrashAt  string `json:"crash_at"`  // second-order crash: exit at this point during recovery ("" = none)
	CrashAtK uint64 `json:"crash_at_k"`
	N        uint64 `json:"n"` // catch up to height N after reporting
}

type restartReport struct {
	InitError   string     `json:"init_error,omitempty"`
	Tip         *tipReport `json:"tip,omitempty"`
	TipError    string     `json:"tip_error,omitempty"`
	NormalOpErr string     `json:"normal_op_error,omitempty"`
	CatchUpErr  string     `json:"catch_up_error,omitempty"`
	Final       *tipReport `json:"final,omitempty"`
	ShutdownErr string     `json:"shutdown_error,omitempty"`
	Phase       int        `json:"phase"` // 1 = after Initialize, 2 = after catch-up
	// number of subscriber-log lines written by the time Initialize returned
	DeliveredAtInit int64 `json:"delivered_at_init"`
}

// deliveries counts the lines this process has appended to its subscriber log.
var deliveries atomic.Int64

func TestMain(m *testing.M) {
	if pf := os.Getenv("C18_CHILD"); pf != "" {
		os.Exit(childMain(pf))
	}
	os.Exit(m.Run())
}

type appendLog struct {
	mu   sync.Mutex
	f    *os.File
	sync bool
}

func openAppendLog(path string, fsync bool) (*appendLog, error) {
	f, err := os.OpenFile(path, os.O_CREATE|os.O_WRONLY|os.O_APPEND, 0o644)
	if err != nil {
		return nil, err
	}
	return &appendLog{f: f, sync: fsync}, nil
}

var procStart = time.Now()

func (l *appendLog) line(s string) error {
	l.mu.Lock()
	defer l.mu.Unlock()
	if !l.sync {
		s += fmt.Sprintf(" +%dms", time.Since(procStart).Milliseconds())
	}
	if _, err := l.f.WriteString(s + "\n"); err != nil {
		return err
	}
	if l.sync {
		return l.f.Sync()
	}
	return nil
}

func childMain(paramFile string) int {
	raw, err := os.ReadFile(paramFile)
	if err != nil {
		fmt.Fprintln(os.Stderr, "child: read params:", err)
		return exitChildSetup
	}
	var p childParams
	if err := json.Unmarshal(raw, &p); err != nil {
		fmt.Fprintln(os.Stderr, "child: decode params:", err)
		return exitChildSetup
	}
	raw, err = os.ReadFile(p.ChainFile)
	if err != nil {
		fmt.Fprintln(os.Stderr, "child: read chain:", err)
		return exitChildSetup
	}
	var rc refChain
	if err := json.Unmarshal(raw, &rc); err != nil {
		fmt.Fprintln(os.Stderr, "child: decode chain:", err)
		return exitChildSetup
	}
	// watchdog: a child never outlives this, whatever happens
	time.AfterFunc(childWatchdog, func() {
		fmt.Fprintln(os.Stderr, "child: watchdog fired")
		if f, err := os.Create(p.Progress + ".stacks"); err == nil {
			_ = pprof.Lookup("goroutine").WriteTo(f, 1)
			_ = f.Close()
		}
		os.Exit(exitChildHung)
	})
	subLog, err := openAppendLog(p.SubLog, true)
	if err != nil {
		fmt.Fprintln(os.Stderr, "child:", err)
		return exitChildSetup
	}
	progress, err := openAppendLog(p.Progress, false)
	if err != nil {
		fmt.Fprintln(os.Stderr, "child:", err)
		return exitChildSetup
	}
	onAccepted := func(b *chain.ExecutedBlock) error {
		// one line per delivery, durable before Notify returns
		err := subLog.line(fmt.Sprintf("%d %s %x", b.Block.Hght, b.Block.GetID(), b.ExecutionResults.Marshal()))
		deliveries.Add(1)
		return err
	}
	switch p.Mode {
	case "follow":
		return childFollow(p, &rc, progress, onAccepted)
	case "restart":
		return childRestart(p, &rc, progress, onAccepted)
	}
	return exitChildSetup
}

// childFollow: a fresh node accepts the producer's blocks 1..Target the way
// the engine does (parse, verify, set preference, accept, never waiting for
// the asynchronous accepter except below SyncBelow), with the accepter held
// at process-start(Hold) until Target is indexed, and dies at Point of block K.
func childFollow(p childParams, rc *refChain, progress *appendLog, onAccepted func(*chain.ExecutedBlock) error) int {
	ctx := context.Background()
	indexed := make(chan struct{})
	notified := make([]chan struct{}, len(rc.Blocks)+1)
	for i := range notified {
		notified[i] = make(chan struct{})
	}
	var started atomic.Bool
	handler := func(name string, h uint64) {
		_ = progress.line(fmt.Sprintf("%s %d", name, h))
		if !started.Load() {
			return // genesis / initialisation work
		}
		if name == ptQueued && p.RaceAtQueued != 0 && h == p.RaceAtQueued {
			close(indexed)
			select {} // Accept(h) never returns; the accepter runs into the crash point meanwhile
		}
		if name == ptProcessStart && p.Hold != 0 && h == p.Hold {
			<-indexed
		}
		if p.Point != "" && name == p.Point && h == p.K {
			os.Exit(exitCrashPoint)
		}
		if name == ptNotified && int(h) < len(notified) {
			close(notified[h])
		}
	}
	verifhook.Handler.Store(&handler)

	n, err := startNode(ctx, p.Dir, rc.Genesis, onAccepted)
	if err != nil {
		fmt.Fprintln(os.Stderr, "follow: init:", err)
		return exitChildSetup
	}
	if err := n.snow.SetState(ctx, avasnow.Bootstrapping); err != nil {
		fmt.Fprintln(os.Stderr, "follow: bootstrapping:", err)
		return exitChildSetup
	}
	if !p.Boot {
		if err := n.snow.SetState(ctx, avasnow.NormalOp); err != nil {
			fmt.Fprintln(os.Stderr, "follow: normal op:", err)
			return exitChildSetup
		}
	}
	started.Store(true)
	_ = progress.line("ready 0")
	fmt.Println("READY") // the parent's SIGKILL delay starts here
	for h := uint64(1); h <= p.Target; h++ {
		blk, err := n.parseVerify(ctx, rc.Blocks[h].Bytes)
		if err != nil {
			fmt.Fprintf(os.Stderr, "follow: block %d: %v\n", h, err)
			return 3
		}
		if err := n.accept(ctx, blk, false); err != nil {
			fmt.Fprintf(os.Stderr, "follow: accept %d: %v\n", h, err)
			return 3
		}
		_ = progress.line(fmt.Sprintf("accept-returned %d", h))
		if h < p.SyncBelow {
			<-notified[h]
		}
	}
	_ = progress.line(fmt.Sprintf("accepted-all %d", p.Target))
	close(indexed)
	if p.Point == "" {
		// SIGKILL mode: let the accepter drain, say so, and wait to be killed
		for h := uint64(1); h <= p.Target; h++ {
			<-notified[h]
		}
		_ = progress.line(fmt.Sprintf("processed-all %d", p.Target))
	}
	select {} // the crash point (or the parent, or the watchdog) ends this process
}

// childRestart: start a node on the crashed node's directory, report what it
// recovered, then let it catch up to height N and report again.
func childRestart(p childParams, rc *refChain, progress *appendLog, onAccepted func(*chain.ExecutedBlock) error) int {
	ctx := context.Background()
	handler := func(name string, h uint64) {
		_ = progress.line(fmt.Sprintf("%s %d", name, h))
		if p.CrashAt != "" && name == p.CrashAt && h == p.CrashAtK {
			os.Exit(exitCrashPoint)
		}
	}
	verifhook.Handler.Store(&handler)
	var rep restartReport
	write := func() {
		b, _ := json.Marshal(rep)
		tmp := p.Report + ".tmp"
		if err := os.WriteFile(tmp, b, 0o644); err == nil {
			_ = os.Rename(tmp, p.Report)
		}
	}
	_ = progress.line("starting 0")
	n, err := startNode(ctx, p.Dir, rc.Genesis, onAccepted)
	if err != nil {
		rep.InitError = err.Error()
		write()
		return 0
	}
	rep.Phase = 1
	rep.DeliveredAtInit = deliveries.Load()
	tp, err := n.tip(ctx)
	if err != nil {
		rep.TipError = err.Error()
		write()
		return 0
	}
	rep.Tip = &tp
	write()
	_ = progress.line("initialized 0")

	if err := n.snow.SetState(ctx, avasnow.Bootstrapping); err != nil {
		rep.NormalOpErr = "bootstrapping: " + err.Error()
		write()
		return 0
	}
	// the engine bootstraps the missing blocks, then switches to normal operation
	for h := tp.Height + 1; h <= p.N && h < uint64(len(rc.Blocks)); h++ {
		blk, err := n.parseVerify(ctx, rc.Blocks[h].Bytes)
		if err == nil {
			err = n.accept(ctx, blk, true)
		}
		if err != nil {
			rep.CatchUpErr = fmt.Sprintf("height %d: %v", h, err)
			write()
			return 0
		}
	}
	if err := n.snow.SetState(ctx, avasnow.NormalOp); err != nil {
		rep.NormalOpErr = err.Error()
		write()
		return 0
	}
	fin, err := n.tip(ctx)
	if err != nil {
		rep.CatchUpErr = "final tip: " + err.Error()
		write()
		return 0
	}
	rep.Final = &fin
	rep.Phase = 2
	write()
	_ = progress.line("caught-up 0")
	if err := n.snow.Shutdown(ctx); err != nil {
		rep.ShutdownErr = err.Error()
		write()
	}
	_ = progress.line("shut-down 0")
	return 0
}
