//go:build verif

// Package crash decides property C18: a node that dies at any point of the
// accept pipeline (chain-index update, queueing, execution-results write,
// state commit, subscriber notification), possibly with a backlog of accepted
// but unprocessed blocks, restarts on the same data directory and recovers the
// accepted chain.
//
// Everything here drives the real vm.VM wrapped in the real snow.VM over the
// real on-disk pebble databases. Crashes are real process deaths: the follower
// and the restarted node are child processes of the test binary (see
// child_test.go), so nothing in memory survives a crash.
package crash

import (
	"context"
	"encoding/json"
	"errors"
	"fmt"
	"os"
	"time"

	"github.com/ava-labs/avalanchego/api/metrics"
	"github.com/ava-labs/avalanchego/ids"
	avasnow "github.com/ava-labs/avalanchego/snow"
	"github.com/ava-labs/avalanchego/snow/engine/common"
	"github.com/ava-labs/avalanchego/snow/engine/enginetest"
	"github.com/ava-labs/avalanchego/snow/validators/validatorstest"
	"github.com/ava-labs/avalanchego/upgrade/upgradetest"
	"github.com/ava-labs/avalanchego/utils/constants"
	"github.com/ava-labs/avalanchego/utils/crypto/bls/signer/localsigner"
	"github.com/ava-labs/avalanchego/utils/hashing"
	"github.com/ava-labs/avalanchego/utils/logging"
	"github.com/ava-labs/avalanchego/x/merkledb"
	"go.uber.org/zap"

	"github.com/ava-labs/hypersdk/api"
	"github.com/ava-labs/hypersdk/auth"
	"github.com/ava-labs/hypersdk/chain"
	"github.com/ava-labs/hypersdk/chain/chaintest"
	"github.com/ava-labs/hypersdk/codec"
	"github.com/ava-labs/hypersdk/crypto/ed25519"
	"github.com/ava-labs/hypersdk/event"
	"github.com/ava-labs/hypersdk/genesis"
	"github.com/ava-labs/hypersdk/keys"
	"github.com/ava-labs/hypersdk/snow"
	"github.com/ava-labs/hypersdk/state"
	"github.com/ava-labs/hypersdk/state/balance"
	"github.com/ava-labs/hypersdk/state/metadata"
	"github.com/ava-labs/hypersdk/vm"
)

type (
	snowVM   = snow.VM[*chain.ExecutionBlock, *chain.OutputBlock, *chain.OutputBlock]
	snowBlk  = snow.StatefulBlock[*chain.ExecutionBlock, *chain.OutputBlock, *chain.OutputBlock]
	execBlk  = chain.ExecutedBlock
	subFuncF = event.SubscriptionFuncFactory[*chain.ExecutedBlock]
)

// node is one full hypersdk node: vm.VM inside snow.VM over on-disk databases
// rooted at dir.
type node struct {
	dir     string
	snowCtx *avasnow.Context
	snow    *snowVM
	vm      *vm.VM
}

// newFactory mirrors vm/vm_test.go NewTestVMFactory (chaintest action, ED25519
// auth, default genesis/metadata/balance handlers, manual builder + gossiper)
// but with the API/indexer options off and one accepted-block subscription
// owned by the harness.
func newFactory(onAccepted func(*chain.ExecutedBlock) error) (*vm.Factory, error) {
	var (
		actionParser = codec.NewTypeParser[chain.Action]()
		authParser   = codec.NewTypeParser[chain.Auth]()
		outputParser = codec.NewTypeParser[codec.Typed]()
	)
	if err := errors.Join(
		actionParser.Register(&chaintest.TestAction{}, chaintest.UnmarshalTestAction),
		authParser.Register(&auth.ED25519{}, auth.UnmarshalED25519),
		outputParser.Register(&chaintest.TestOutput{}, chaintest.UnmarshalTestOutput),
	); err != nil {
		return nil, err
	}
	opts := []vm.Option{vm.WithManual()}
	if onAccepted != nil {
		opts = append(opts, vm.NewOption[struct{}]("c18sub", struct{}{}, func(api.VM, struct{}) (vm.Opt, error) {
			return vm.WithBlockSubscriptions(subFuncF{
				NotifyF: func(_ context.Context, b *chain.ExecutedBlock) error { return onAccepted(b) },
			}), nil
		}))
	}
	return vm.NewFactory(
		genesis.DefaultGenesisFactory{},
		balance.NewPrefixBalanceHandler([]byte{0}),
		metadata.NewDefaultManager(),
		actionParser,
		authParser,
		outputParser,
		auth.DefaultEngines(),
		opts...,
	), nil
}

// newSnowCtx is avalanchego's snowtest.Context without the testing.TB (child
// processes have none) and with the chain data directory chosen by the caller.
func newSnowCtx(chainID ids.ID, dir string, log logging.Logger) (*avasnow.Context, error) {
	sk, err := localsigner.New()
	if err != nil {
		return nil, err
	}
	xChain, cChain := ids.ID{'x'}, ids.ID{'c'}
	aliaser := ids.NewAliaser()
	if err := errors.Join(
		aliaser.Alias(constants.PlatformChainID, "P"),
		aliaser.Alias(constants.PlatformChainID, constants.PlatformChainID.String()),
		aliaser.Alias(xChain, "X"),
		aliaser.Alias(xChain, xChain.String()),
		aliaser.Alias(cChain, "C"),
		aliaser.Alias(cChain, cChain.String()),
	); err != nil {
		return nil, err
	}
	if log == nil {
		log = logging.NoLog{}
		if os.Getenv("C18_LOG") != "" {
			log = logging.NewLogger("c18", logging.NewWrappedCore(logging.Debug, os.Stderr, logging.Plain.ConsoleEncoder()))
		}
	}
	return &avasnow.Context{
		NetworkID:       constants.UnitTestID,
		SubnetID:        constants.PrimaryNetworkID,
		ChainID:         chainID,
		NodeID:          ids.BuildTestNodeID([]byte{1}),
		PublicKey:       sk.PublicKey(),
		NetworkUpgrades: upgradetest.GetConfig(upgradetest.Latest),
		XChainID:        xChain,
		CChainID:        cChain,
		AVAXAssetID:     ids.ID{'a'},
		Log:             log,
		BCLookup:        aliaser,
		Metrics:         metrics.NewPrefixGatherer(),
		ValidatorState: &validatorstest.State{
			GetMinimumHeightF: func(context.Context) (uint64, error) { return 0, nil },
			GetSubnetIDF: func(context.Context, ids.ID) (ids.ID, error) {
				return constants.PrimaryNetworkID, nil
			},
		},
		ChainDataDir: dir,
	}, nil
}

// startNode initialises a node on dir exactly as vmtest.NewTestVM does
// (snow.NewVM(vm).Initialize with a nil avalanchego database: hypersdk opens
// its own pebble databases under ChainDataDir). A panic raised by Initialize on
// the calling goroutine is returned as an error.
func startNode(ctx context.Context, dir string, genesisBytes []byte, onAccepted func(*chain.ExecutedBlock) error) (n *node, err error) {
	return startNodeWith(ctx, dir, genesisBytes, []byte(`{`+nodeVMConfig+`}`), nil, onAccepted)
}

// nodeVMConfig is node-local tuning (not consensus relevant) used by every
// node of the harness: merkledb's rebuild after an unclean shutdown allocates
// valueNodeCacheSize/50 batch-op slots up front, which is 2.4 GB with
// hypersdk's default of 2 GiB; dozens of restarting nodes side by side then
// spend their time (and the machine's memory) zeroing that slice.
const nodeVMConfig = `"vm":{"valueNodeCacheSize":67108864,"intermediateNodeCacheSize":67108864}`

func startNodeWith(ctx context.Context, dir string, genesisBytes, configBytes []byte, log logging.Logger, onAccepted func(*chain.ExecutedBlock) error) (n *node, err error) {
	factory, err := newFactory(onAccepted)
	if err != nil {
		return nil, err
	}
	inner, err := factory.New()
	if err != nil {
		return nil, err
	}
	sctx, err := newSnowCtx(hashing.ComputeHash256Array(genesisBytes), dir, log)
	if err != nil {
		return nil, err
	}
	sv := snow.NewVM("v0.0.1", inner)
	toEngine := make(chan common.Message, 16)
	defer func() {
		if r := recover(); r != nil {
			n, err = nil, fmt.Errorf("panic in Initialize: %v", r)
		}
	}()
	if err := sv.Initialize(ctx, sctx, nil, genesisBytes, nil, configBytes, toEngine, nil, &enginetest.Sender{}); err != nil {
		return nil, err
	}
	return &node{dir: dir, snowCtx: sctx, snow: sv, vm: inner}, nil
}

// lastAccepted reports the node's view of the tip after all queued work is
// done: consensus last accepted block, and the accepted (processed) block with
// its state root and execution results.
type tipReport struct {
	Height        uint64 `json:"height"`
	ID            string `json:"id"`
	ProcHeight    uint64 `json:"proc_height"`
	ProcID        string `json:"proc_id"`
	Root          string `json:"root"`
	DBRoot        string `json:"db_root"`
	Results       string `json:"results"`
	StateHeight   uint64 `json:"state_height"`
	LastAcceptErr string `json:"last_accept_err,omitempty"`
}

func (n *node) tip(ctx context.Context) (tipReport, error) {
	var r tipReport
	lastID, err := n.snow.LastAccepted(ctx)
	if err != nil {
		return r, err
	}
	r.ID = lastID.String()
	r.Height = n.snow.LastAcceptedBlock(ctx).Height()
	acc, err := n.snow.GetConsensusIndex().GetLastAccepted(ctx)
	if err != nil {
		return r, fmt.Errorf("consensus index has no last accepted block: %w", err)
	}
	r.ProcHeight, r.ProcID = acc.GetHeight(), acc.GetID().String()
	root, err := acc.View.GetMerkleRoot(ctx)
	if err != nil {
		return r, err
	}
	r.Root = root.String()
	r.Results = fmt.Sprintf("%x", acc.ExecutionResults.Marshal())
	im, err := n.vm.ImmutableState(ctx)
	if err != nil {
		return r, err
	}
	if db, ok := im.(interface {
		GetMerkleRoot(context.Context) (ids.ID, error)
	}); ok {
		dbRoot, err := db.GetMerkleRoot(ctx)
		if err != nil {
			return r, err
		}
		r.DBRoot = dbRoot.String()
	}
	hb, err := im.GetValue(ctx, chain.HeightKey(n.vm.MetadataManager().HeightPrefix()))
	if err != nil {
		return r, err
	}
	if len(hb) == 8 {
		for _, b := range hb {
			r.StateHeight = r.StateHeight<<8 | uint64(b)
		}
	}
	return r, nil
}

// parseVerify does what the engine does with a block received from a peer.
func (n *node) parseVerify(ctx context.Context, raw []byte) (*snowBlk, error) {
	n.snowCtx.Lock.Lock()
	defer n.snowCtx.Lock.Unlock()
	blk, err := n.snow.ParseBlock(ctx, raw)
	if err != nil {
		return nil, fmt.Errorf("parse: %w", err)
	}
	if err := blk.Verify(ctx); err != nil {
		return nil, fmt.Errorf("verify: %w", err)
	}
	if err := n.snow.SetPreference(ctx, blk.ID()); err != nil {
		return nil, err
	}
	return blk, nil
}

func (n *node) accept(ctx context.Context, blk *snowBlk, sync bool) error {
	n.snowCtx.Lock.Lock()
	defer n.snowCtx.Lock.Unlock()
	if sync {
		return blk.SyncAccept(ctx)
	}
	return blk.Accept(ctx)
}

// producerLog lets the producer see when the block builder has handed the
// mempool stream back (chain/builder.go logs this from its goroutine).
type producerLog struct {
	logging.NoLog
	restored chan struct{}
}

func (l *producerLog) Debug(msg string, _ ...zap.Field) {
	if msg == "transactions restored to mempool" {
		select {
		case l.restored <- struct{}{}:
		default:
		}
	}
}

// ---------------------------------------------------------------------------
// producer: builds the reference chain once (a node that never crashes)
// ---------------------------------------------------------------------------

type heightRec struct {
	Height  uint64 `json:"height"`
	ID      string `json:"id"`
	Bytes   []byte `json:"bytes"`
	Root    string `json:"root"`    // state root after executing the block
	Results string `json:"results"` // hex of ExecutionResults.Marshal()
	Txs     int    `json:"txs"`
}

type refChain struct {
	Genesis []byte      `json:"genesis"`
	Blocks  []heightRec `json:"blocks"` // Blocks[0] is genesis (no bytes needed)
}

const maxChainLen = 10

// produceChain runs a producer node in dir and returns the reference chain of
// maxChainLen blocks. Block contents vary: writes to fresh and to existing
// keys, a failing action, an empty block, several txs per block, so that every
// height has a distinct state root and non-empty, distinct execution results.
func produceChain(ctx context.Context, dir string) (*refChain, error) {
	priv, err := ed25519.GeneratePrivateKey()
	if err != nil {
		return nil, err
	}
	authFactory := auth.NewED25519Factory(priv)
	rules := genesis.NewDefaultRules()
	rules.MinBlockGap = 0
	rules.MinEmptyBlockGap = 0
	gen := &genesis.DefaultGenesis{
		StateBranchFactor: merkledb.BranchFactor16,
		CustomAllocation:  []*genesis.CustomAllocation{{Address: authFactory.Address(), Balance: 1_000_000_000_000_000}},
		Rules:             rules,
	}
	genesisBytes, err := json.Marshal(gen)
	if err != nil {
		return nil, err
	}
	delivered := map[uint64]string{}
	// Producer-only settings, neither consensus relevant: the builder gives up
	// after targetBuildDuration of wall time (100 ms by default, measured from
	// before it takes the mempool lock), which a loaded machine exceeds; and the
	// builder returns the mempool stream asynchronously, so the producer waits
	// for that (log line) before it builds again.
	plog := &producerLog{restored: make(chan struct{}, 64)}
	n, err := startNodeWith(ctx, dir, genesisBytes, []byte(`{"chain":{"targetBuildDuration":30000000000},`+nodeVMConfig+`}`), plog, func(b *chain.ExecutedBlock) error {
		delivered[b.Block.Hght] = fmt.Sprintf("%x", b.ExecutionResults.Marshal())
		return nil
	})
	if err != nil {
		return nil, fmt.Errorf("producer init: %w", err)
	}
	defer func() { _ = n.snow.Shutdown(ctx) }()
	if err := n.snow.SetState(ctx, avasnow.Bootstrapping); err != nil {
		return nil, err
	}
	if err := n.snow.SetState(ctx, avasnow.NormalOp); err != nil {
		return nil, fmt.Errorf("producer normal op: %w", err)
	}
	t0, err := n.tip(ctx)
	if err != nil {
		return nil, err
	}
	rc := &refChain{Genesis: genesisBytes, Blocks: []heightRec{{Height: 0, ID: t0.ID, Root: t0.Root, Results: t0.Results}}}

	nonce := uint64(0)
	mkAction := func(key string, val []byte, fail bool) chain.Action {
		nonce++
		k := keys.EncodeChunks([]byte(key), 1)
		return &chaintest.TestAction{
			NumComputeUnits:              1,
			SpecifiedStateKeys:           []string{string(k)},
			SpecifiedStateKeyPermissions: []state.Permissions{state.All},
			ReadKeys:                     [][]byte{},
			WriteKeys:                    [][]byte{k},
			WriteValues:                  [][]byte{val},
			ExecuteErr:                   fail,
			Nonce:                        nonce,
			Start:                        -1,
			End:                          -1,
		}
	}
	for h := uint64(1); h <= maxChainLen; h++ {
		var actions [][]chain.Action // one entry per tx
		switch h % 5 {
		case 1:
			actions = [][]chain.Action{{mkAction(fmt.Sprintf("k%d", h), []byte{byte(h)}, false)}}
		case 2: // overwrite an existing key + a failing tx
			actions = [][]chain.Action{
				{mkAction(fmt.Sprintf("k%d", h-1), []byte{byte(h), 0xee}, false)},
				{mkAction("never", []byte{1}, true)},
			}
		case 3: // empty block (fee state and height/timestamp keys still change)
		case 4:
			actions = [][]chain.Action{
				{mkAction("shared", []byte{byte(h)}, false), mkAction(fmt.Sprintf("k%d", h), []byte{byte(h)}, false)},
				{mkAction("shared2", []byte{byte(h)}, false)},
				{mkAction("shared3", []byte{byte(h)}, false)},
			}
		case 0:
			actions = [][]chain.Action{{mkAction("shared", []byte{byte(h), 1}, false)}}
		}
		unitPrices, err := n.vm.UnitPrices(ctx)
		if err != nil {
			return nil, err
		}
		var txs []*chain.Transaction
		for _, as := range actions {
			tx, err := chain.GenerateTransaction(n.vm.GetRuleFactory(), unitPrices, time.Now().UnixMilli(), as, authFactory)
			if err != nil {
				return nil, fmt.Errorf("generate tx: %w", err)
			}
			txs = append(txs, tx)
		}
		if len(txs) > 0 {
			if err := errors.Join(n.vm.Submit(ctx, txs)...); err != nil {
				return nil, fmt.Errorf("submit at height %d: %w", h, err)
			}
		}
		n.snowCtx.Lock.Lock()
		blk, err := n.snow.BuildBlock(ctx)
		if err == nil {
			select {
			case <-plog.restored:
			case <-ctx.Done():
				err = ctx.Err()
			}
		}
		if err == nil {
			err = blk.Verify(ctx)
		}
		if err == nil {
			err = n.snow.SetPreference(ctx, blk.ID())
		}
		if err == nil {
			err = blk.SyncAccept(ctx)
		}
		n.snowCtx.Lock.Unlock()
		if err != nil {
			return nil, fmt.Errorf("producer block %d: %w", h, err)
		}
		if blk.Height() != h || len(blk.Input.StatelessBlock.Txs) != len(txs) {
			return nil, fmt.Errorf("producer block %d: built height %d with %d of %d txs", h, blk.Height(), len(blk.Input.StatelessBlock.Txs), len(txs))
		}
		tp, err := n.tip(ctx)
		if err != nil {
			return nil, err
		}
		if tp.Height != h || tp.ProcHeight != h || tp.StateHeight != h || tp.Root != tp.DBRoot {
			return nil, fmt.Errorf("producer tip after block %d inconsistent: %+v", h, tp)
		}
		if delivered[h] != tp.Results {
			return nil, fmt.Errorf("producer: subscriber results at %d differ from accepted block's", h)
		}
		rc.Blocks = append(rc.Blocks, heightRec{Height: h, ID: tp.ID, Bytes: blk.Bytes(), Root: tp.Root, Results: tp.Results, Txs: len(txs)})
	}
	return rc, nil
}
