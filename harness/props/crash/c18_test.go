//go:build verif

package crash

import (
	"bufio"
	"bytes"
	"context"
	"encoding/json"
	"errors"
	"fmt"
	"os"
	"os/exec"
	"path/filepath"
	"runtime"
	"sort"
	"strconv"
	"strings"
	"sync"
	"syscall"
	"testing"
	"time"

	"pgregory.net/rapid"

	"github.com/ava-labs/hypersdk/verifharness/vstat"
)

// ---------------------------------------------------------------------------
// case
// ---------------------------------------------------------------------------

// c18Case is one crash trial.
//
// Mode "exit": the follower dies with os.Exit inside hook point Point of block
// K. D is the backlog: for the accepter-side points the consensus thread has
// already indexed (and queued) K+D when the accepter, held at
// process-start(K), is released and runs into the crash point; for the
// consensus-side points (index-updated, queued) the accepter is held at
// process-start(K-D) (all of K-D..K-1 are indexed and queued, none processed)
// while the consensus thread runs into the crash point inside Accept(K).
//
// Race (accepter-side points only): the consensus thread does not get to finish
// Accept(K+D): it is stopped right after handing K+D to the accepted queue, and
// the accepter runs into the crash point while that Accept call is in progress.
//
// Mode "kill": the follower is SIGKILLed DelayUs microseconds after it started
// accepting heights 1..Target, with the accepter held at process-start(Hold)
// until Target is indexed (Hold = 0: free running).
//
// Crash2/Crash2K (exit mode only): the first restart dies as well, at hook
// point Crash2 of block Crash2K if recovery passes through it, and a second
// restart is judged instead.
type c18Case struct {
	Mode    string `json:"mode"`
	Point   string `json:"point,omitempty"`
	K       uint64 `json:"k,omitempty"`
	D       uint64 `json:"d,omitempty"`
	N       uint64 `json:"n"`
	Boot    bool   `json:"boot,omitempty"`
	Race    bool   `json:"race,omitempty"`
	Hold    uint64 `json:"hold,omitempty"`
	Target  uint64 `json:"target,omitempty"`
	DelayUs int    `json:"delay_us,omitempty"`
	Crash2  string `json:"crash2,omitempty"`
	Crash2K uint64 `json:"crash2_k,omitempty"`
}

func (c c18Case) canonical() string {
	return fmt.Sprintf("%s|%s|k%d|d%d|n%d|b%v|r%v|h%d|t%d|%s@%d", c.Mode, c.Point, c.K, c.D, c.N, c.Boot, c.Race, c.Hold, c.Target, c.Crash2, c.Crash2K)
}

// valid says whether the case denotes a schedule that exists.
func (c c18Case) valid() error {
	if c.N < 1 || c.N > maxChainLen {
		return fmt.Errorf("n out of range")
	}
	switch c.Mode {
	case "exit":
		ok := false
		for _, p := range allPoints {
			ok = ok || p == c.Point
		}
		if !ok {
			return fmt.Errorf("unknown point %q", c.Point)
		}
		if c.K < 1 || c.K > c.N {
			return fmt.Errorf("k out of range")
		}
		if consensusPoint(c.Point) {
			if c.D > c.K-1 {
				return fmt.Errorf("d out of range for a consensus-side point")
			}
		} else if c.K+c.D > c.N {
			return fmt.Errorf("d out of range for an accepter-side point")
		}
		if c.Race && consensusPoint(c.Point) {
			return fmt.Errorf("race applies to accepter-side points only")
		}
		if c.Crash2 != "" && c.Crash2 != ptResults && c.Crash2 != ptCommitted {
			return fmt.Errorf("second crash point %q is not on the recovery path", c.Crash2)
		}
	case "kill":
		if c.Target < 1 || c.Target > c.N || c.Hold > c.Target || c.DelayUs < 0 {
			return fmt.Errorf("kill parameters out of range")
		}
	default:
		return fmt.Errorf("unknown mode %q", c.Mode)
	}
	return nil
}

// follow derives the follower's schedule.
func (c c18Case) follow() childParams {
	p := childParams{Mode: "follow", Boot: c.Boot}
	switch {
	case c.Mode == "kill":
		p.Hold, p.SyncBelow, p.Target = c.Hold, c.Hold, c.Target
	case consensusPoint(c.Point):
		p.Point, p.K, p.Target = c.Point, c.K, c.K
		p.SyncBelow = c.K - c.D
		if c.D >= 1 {
			p.Hold = c.K - c.D
		}
	default:
		p.Point, p.K, p.Target = c.Point, c.K, c.K+c.D
		p.Hold, p.SyncBelow = c.K, c.K
		if c.Race {
			p.RaceAtQueued = p.Target
		}
	}
	return p
}

// planned returns the chain-index height and the state height the schedule of
// an exit-mode case leaves on disk (the judge reads the real ones from the
// follower's hook log and refuses a verdict if the index differs).
func (c c18Case) planned() (index, state uint64) {
	switch {
	case consensusPoint(c.Point):
		return c.K, c.K - c.D - 1
	case c.Point == ptProcessStart || c.Point == ptResults:
		return c.K + c.D, c.K - 1
	default:
		return c.K + c.D, c.K
	}
}

// ---------------------------------------------------------------------------
// reference chain (producer), once per test process
// ---------------------------------------------------------------------------

var (
	refOnce sync.Once
	refC    *refChain
	refFile string
	refErr  error
	workDir string
)

func reference() (*refChain, string, error) {
	refOnce.Do(func() {
		// Node directories live on tmpfs when there is one: a crash here is a
		// process death, which the page cache survives, so a RAM-backed file
		// system loses nothing the model needs, and every pebble write of the
		// node is a synchronous one that would otherwise wait for the disk.
		base := os.Getenv("C18_WORK")
		if base == "" {
			if fi, err := os.Stat("/dev/shm"); err == nil && fi.IsDir() {
				base = "/dev/shm"
			} else if base = os.Getenv("VERIF_WORK"); base == "" {
				base = os.TempDir()
			}
		}
		workDir, refErr = os.MkdirTemp(base, "c18-")
		if refErr != nil {
			return
		}
		prodDir := filepath.Join(workDir, "producer")
		if refErr = os.MkdirAll(prodDir, 0o755); refErr != nil {
			return
		}
		ctx, cancel := context.WithTimeout(context.Background(), 60*time.Second)
		defer cancel()
		refC, refErr = produceChain(ctx, prodDir)
		if refErr != nil {
			return
		}
		// sanity of the reference itself: roots and results differ from height to height
		seen := map[string]bool{}
		for _, b := range refC.Blocks {
			if seen[b.Root] {
				refErr = fmt.Errorf("producer: state root repeats at height %d", b.Height)
				return
			}
			seen[b.Root] = true
		}
		raw, _ := json.Marshal(refC)
		refFile = filepath.Join(workDir, "chain.json")
		refErr = os.WriteFile(refFile, raw, 0o644)
		_ = os.RemoveAll(prodDir)
	})
	return refC, refFile, refErr
}

func cleanupWork() {
	if workDir != "" && os.Getenv("C18_KEEP") == "" {
		_ = os.RemoveAll(workDir)
	}
}

// ---------------------------------------------------------------------------
// executing a trial (child processes)
// ---------------------------------------------------------------------------

type progLine struct {
	Name string
	H    uint64
}

type delivery struct {
	H       uint64
	ID      string
	Results string
}

type childRun struct {
	Exit     int
	Signaled bool
	TimedOut bool
	Stderr   string
	Dur      time.Duration
}

type c18Outcome struct {
	Inconclusive string // non-empty: no verdict possible (timeouts, harness trouble)

	Follow   childRun
	Progress []progLine // hook points reached by the follower after it started accepting
	PreLog   []delivery

	// first restart when the case has a second-order crash
	Mid         *childRun
	MidProgress []progLine
	MidLog      []delivery

	Restart      childRun
	Report       *restartReport
	PostLog      []delivery
	PostProgress []progLine
}

const childTimeout = childWatchdog + 30*time.Second

func tail(s string, n int) string {
	if len(s) > n {
		return "…" + s[len(s)-n:]
	}
	return s
}

// runChild runs the test binary as a child with the given parameters. If
// killAfter >= 0 the child is SIGKILLed that long after it printed READY.
func runChild(p childParams, paramFile string, killAfter time.Duration) (res childRun) {
	raw, _ := json.Marshal(p)
	if err := os.WriteFile(paramFile, raw, 0o644); err != nil {
		return childRun{Exit: -1, Stderr: err.Error(), TimedOut: true}
	}
	ctx, cancel := context.WithTimeout(context.Background(), childTimeout)
	defer cancel()
	cmd := exec.CommandContext(ctx, os.Args[0])
	env := []string{"C18_CHILD=" + paramFile}
	for _, kv := range os.Environ() {
		if strings.HasPrefix(kv, "VERIF_") || strings.HasPrefix(kv, "C18_CHILD=") || strings.HasPrefix(kv, "GOMAXPROCS=") {
			continue
		}
		env = append(env, kv)
	}
	// a node process is happy with a few cores; many run side by side
	cmd.Env = append(env, "GOMAXPROCS=4")
	var stderr bytes.Buffer
	cmd.Stderr = &stderr
	t0 := time.Now()
	defer func() { res.Dur = time.Since(t0) }()
	stdout, err := cmd.StdoutPipe()
	if err != nil {
		return childRun{Exit: -1, Stderr: err.Error(), TimedOut: true}
	}
	if err := cmd.Start(); err != nil {
		return childRun{Exit: -1, Stderr: err.Error(), TimedOut: true}
	}
	done := make(chan struct{})
	go func() {
		defer close(done)
		sc := bufio.NewScanner(stdout)
		for sc.Scan() {
			if killAfter >= 0 && strings.TrimSpace(sc.Text()) == "READY" {
				time.Sleep(killAfter)
				_ = cmd.Process.Signal(syscall.SIGKILL)
			}
		}
	}()
	<-done
	err = cmd.Wait()
	res.Stderr = tail(stderr.String(), 1500)
	if raw, err := os.ReadFile(p.Progress + ".stacks"); err == nil {
		// the child's watchdog fired: keep where it was for the record
		keep := filepath.Join(os.TempDir(), fmt.Sprintf("c18-hung-child-%d-%d.stacks", os.Getpid(), time.Now().UnixNano()))
		if os.WriteFile(keep, raw, 0o644) == nil {
			res.Stderr += " | goroutines of the hung child: " + keep
		}
	}
	if ctx.Err() != nil {
		res.TimedOut = true
	}
	if err == nil {
		res.Exit = 0
		return res
	}
	var ee *exec.ExitError
	if errors.As(err, &ee) {
		if ws, ok := ee.Sys().(syscall.WaitStatus); ok && ws.Signaled() {
			res.Signaled = true
			res.Exit = -int(ws.Signal())
			return res
		}
		res.Exit = ee.ExitCode()
		return res
	}
	res.Exit = -1
	res.Stderr += " | wait: " + err.Error()
	return res
}

func readProgress(path string) []progLine {
	raw, _ := os.ReadFile(path)
	var out []progLine
	for _, ln := range strings.Split(string(raw), "\n") {
		f := strings.Fields(ln)
		if len(f) != 3 {
			continue // a torn last line after SIGKILL is ignored
		}
		h, err := strconv.ParseUint(f[1], 10, 64)
		if err != nil {
			continue
		}
		out = append(out, progLine{f[0], h})
	}
	return out
}

func readDeliveries(path string) []delivery {
	raw, _ := os.ReadFile(path)
	var out []delivery
	lines := strings.Split(string(raw), "\n")
	for i, ln := range lines {
		f := strings.Fields(ln)
		if i == len(lines)-1 && ln != "" {
			continue // no trailing newline: torn line
		}
		if len(f) < 2 {
			continue
		}
		h, err := strconv.ParseUint(f[0], 10, 64)
		if err != nil {
			continue
		}
		d := delivery{H: h, ID: f[1]}
		if len(f) > 2 {
			d.Results = f[2]
		}
		out = append(out, d)
	}
	return out
}

// c18Execute performs the crash and the restart(s). It never judges.
func c18Execute(c c18Case) (out c18Outcome) {
	_, chainFile, err := reference()
	if err != nil {
		out.Inconclusive = "producer: " + err.Error()
		return out
	}
	dir, err := os.MkdirTemp(workDir, "trial-")
	if err != nil {
		out.Inconclusive = err.Error()
		return out
	}
	if os.Getenv("C18_KEEP") == "" {
		defer os.RemoveAll(dir)
	} else {
		fmt.Fprintln(os.Stderr, "trial dir:", dir)
	}
	nodeDir := filepath.Join(dir, "node")
	if err := os.MkdirAll(nodeDir, 0o755); err != nil {
		out.Inconclusive = err.Error()
		return out
	}
	fp := c.follow()
	fp.Dir, fp.ChainFile = nodeDir, chainFile
	fp.SubLog, fp.Progress = filepath.Join(dir, "pre.log"), filepath.Join(dir, "pre.progress")
	killAfter := time.Duration(-1)
	if c.Mode == "kill" {
		killAfter = time.Duration(c.DelayUs) * time.Microsecond
	}
	out.Follow = runChild(fp, filepath.Join(dir, "follow.json"), killAfter)
	all := readProgress(fp.Progress)
	for i, pl := range all {
		if pl.Name == "ready" {
			out.Progress = all[i+1:]
			break
		}
	}
	out.PreLog = readDeliveries(fp.SubLog)
	switch {
	case out.Follow.TimedOut || out.Follow.Exit == exitChildHung:
		out.Inconclusive = "follower timed out: " + out.Follow.Stderr
		return out
	case c.Mode == "exit" && out.Follow.Exit != exitCrashPoint:
		out.Inconclusive = fmt.Sprintf("follower ended with %d before the crash point: %s", out.Follow.Exit, out.Follow.Stderr)
		return out
	case c.Mode == "kill" && !(out.Follow.Signaled && out.Follow.Exit == -int(syscall.SIGKILL)):
		out.Inconclusive = fmt.Sprintf("follower ended with %d instead of being killed: %s", out.Follow.Exit, out.Follow.Stderr)
		return out
	}

	if c.Crash2 != "" {
		mp := childParams{Mode: "restart", Dir: nodeDir, ChainFile: chainFile, N: 0,
			SubLog: filepath.Join(dir, "mid.log"), Progress: filepath.Join(dir, "mid.progress"),
			Report: filepath.Join(dir, "mid.report"), CrashAt: c.Crash2, CrashAtK: c.Crash2K}
		mr := runChild(mp, filepath.Join(dir, "mid.json"), -1)
		out.Mid = &mr
		out.MidProgress = readProgress(mp.Progress)
		out.MidLog = readDeliveries(mp.SubLog)
		if mr.TimedOut || mr.Exit == exitChildHung {
			out.Inconclusive = "first restart timed out: " + mr.Stderr
			return out
		}
	}

	rp := childParams{Mode: "restart", Dir: nodeDir, ChainFile: chainFile, N: c.N,
		SubLog: filepath.Join(dir, "post.log"), Progress: filepath.Join(dir, "post.progress"),
		Report: filepath.Join(dir, "report.json")}
	out.Restart = runChild(rp, filepath.Join(dir, "restart.json"), -1)
	out.PostLog = readDeliveries(rp.SubLog)
	out.PostProgress = readProgress(rp.Progress)
	if out.Restart.TimedOut || out.Restart.Exit == exitChildHung || out.Restart.Exit == exitChildSetup {
		out.Inconclusive = fmt.Sprintf("restart child: exit %d timed out %v: %s", out.Restart.Exit, out.Restart.TimedOut, out.Restart.Stderr)
		return out
	}
	if raw, err := os.ReadFile(rp.Report); err == nil {
		var rep restartReport
		if json.Unmarshal(raw, &rep) == nil {
			out.Report = &rep
		}
	}
	return out
}

// ---------------------------------------------------------------------------
// oracle
// ---------------------------------------------------------------------------

type errInconclusive struct{ msg string }

func (e errInconclusive) Error() string { return "INCONCLUSIVE: " + e.msg }

func maxPoint(pl []progLine, name string) uint64 {
	var m uint64
	for _, p := range pl {
		if p.Name == name && p.H > m {
			m = p.H
		}
	}
	return m
}

func heightsOf(ds []delivery) string {
	var sb strings.Builder
	for i, d := range ds {
		if i > 0 {
			sb.WriteByte(',')
		}
		fmt.Fprintf(&sb, "%d", d.H)
	}
	return sb.String()
}

// c18Judge applies the oracle of C18 to an executed trial.
//
// With c = the highest height whose chain-index update completed before the
// crash (the node had accepted 1..c), a node that never crashed has last
// accepted block c, the state root and execution results of c, and has
// delivered 1..c to its accepted-block subscribers. So: the restart must
// succeed; its last accepted block, state root and last execution results must
// be the producer's at c; the deliveries before the crash together with those
// made by the restarted node by the time it is initialised must contain every
// height 1..c, each process's deliveries in non-decreasing height order and
// each delivery carrying the producer's block id and results for its height;
// and after catching up to N the node must be where the producer was at N.
func c18Judge(c c18Case, o c18Outcome, st *vstat.Stats) error {
	ref, _, err := reference()
	if err != nil {
		return errInconclusive{err.Error()}
	}
	if o.Inconclusive != "" {
		return errInconclusive{o.Inconclusive}
	}
	idx := maxPoint(o.Progress, ptIndexUpdated)
	stateH := maxPoint(o.Progress, ptCommitted)
	resH := maxPoint(o.Progress, ptResults)
	notifiedH := maxPoint(o.Progress, ptNotified)

	// c: the node had accepted 1..c when it died. The chain-index update of a
	// block is the durable act of accepting it (hook point index-updated); a
	// block whose Accept call returned to the engine is accepted whatever the
	// code wrote.
	accRet := maxPoint(o.Progress, "accept-returned")
	cLo := max(idx, accRet)
	cHi := cLo
	if c.Mode == "kill" {
		// the kill may fall between the index batch and the hook's log line
		if cHi < c.Target {
			cHi++
		}
	} else {
		fp := c.follow()
		wantRet := fp.Target
		if consensusPoint(c.Point) || c.Race {
			wantRet = fp.Target - 1 // the crash happens inside Accept(Target)
		}
		if accRet != wantRet {
			return errInconclusive{fmt.Sprintf("schedule not achieved: Accept returned up to %d, planned %d", accRet, wantRet)}
		}
	}
	gap := int64(cLo) - int64(stateH)

	// ---- evidence
	labels := []string{"mode:" + c.Mode}
	if c.Mode == "exit" {
		labels = append(labels, "point:"+c.Point)
		if consensusPoint(c.Point) {
			labels = append(labels, "side:consensus-thread")
		} else {
			labels = append(labels, "side:accepter-thread")
		}
		if c.D == 0 {
			labels = append(labels, "backlog=0")
		} else {
			labels = append(labels, "backlog>=1")
		}
		if c.D >= 3 {
			labels = append(labels, "backlog>=3")
		}
		switch {
		case c.K == 1:
			labels = append(labels, "k=first")
		case c.K == c.N:
			labels = append(labels, "k=last")
		}
	} else {
		switch {
		case idx == 0:
			labels = append(labels, "kill:before-first-index")
		case notifiedH == c.Target:
			labels = append(labels, "kill:after-all-processed")
		default:
			labels = append(labels, "kill:mid-pipeline")
		}
		if resH > stateH {
			labels = append(labels, "kill:between-results-and-commit")
		}
		if stateH > notifiedH {
			labels = append(labels, "kill:between-commit-and-notify")
		}
	}
	switch {
	case gap <= 0:
		labels = append(labels, "index-state=0")
	case gap == 1:
		labels = append(labels, "index-state=1")
	default:
		labels = append(labels, "index-state>=2")
	}
	if gap <= 1 {
		labels = append(labels, "index-state<=1")
	}
	if resH > stateH {
		labels = append(labels, "results-ahead-of-state")
	}
	if stateH > notifiedH && idx > stateH {
		labels = append(labels, "committed-unnotified-with-later-indexed")
	}
	if c.Boot {
		labels = append(labels, "follower-bootstrapping")
	}
	if c.Race {
		labels = append(labels, "accept-call-in-progress")
	}
	if c.Crash2 != "" {
		if o.Mid != nil && o.Mid.Exit == exitCrashPoint {
			labels = append(labels, "second-crash-hit")
		} else {
			labels = append(labels, "second-crash-not-reached")
		}
	}
	// Non-trivial: the crash left an accepted block part-way through the
	// pipeline, so the restart has something to repair: a backlog to reprocess
	// (index > state) or a committed block whose subscribers were not notified.
	// A trial that ends in a known finding's failed restart is executed and
	// counted, but not as non-trivial: nothing behind the failed start was judged.
	nontrivial := gap >= 1 || stateH > notifiedH
	if rep := o.Report; rep != nil && rep.InitError != "" && c18KnownInitFailure(c, rep.InitError, gap, st) != "" {
		nontrivial = false
	}
	st.Case(nontrivial, c.canonical(), labels...)
	st.Sample(nontrivial, map[string]any{"case": c, "indexed": idx, "state": stateH, "results": resH,
		"notified": notifiedH, "pre_deliveries": heightsOf(o.PreLog), "post_deliveries": heightsOf(o.PostLog)})

	where := fmt.Sprintf("[crash: accept-returned=%d indexed=%d state=%d results=%d notified=%d index-state=%d]", accRet, idx, stateH, resH, notifiedH, gap)

	// ---- 1. restart succeeds
	if o.Mid != nil && o.Mid.Exit != 0 && o.Mid.Exit != exitCrashPoint {
		return fmt.Errorf("kind=restart-crashed %s first restarted node died (exit %d) on its own: %s", where, o.Mid.Exit, tail(o.Mid.Stderr, 600))
	}
	if o.Report == nil {
		return fmt.Errorf("kind=restart-crashed %s restarted node died (exit %d) before reporting: %s", where, o.Restart.Exit, tail(o.Restart.Stderr, 600))
	}
	rep := o.Report
	if rep.InitError != "" {
		if id := c18KnownInitFailure(c, rep.InitError, gap, st); id != "" {
			st.Exclude(id)
			return nil
		}
		return fmt.Errorf("kind=restart-init-error index_minus_state=%d %s Initialize failed: %s", gap, where, rep.InitError)
	}
	if rep.TipError != "" || rep.Tip == nil {
		return fmt.Errorf("kind=restart-no-tip %s restarted node cannot report its last accepted block: %s", where, rep.TipError)
	}
	if o.Restart.Exit != 0 {
		return fmt.Errorf("kind=restart-crashed-later %s restarted node died (exit %d) after Initialize: %s", where, o.Restart.Exit, tail(o.Restart.Stderr, 600))
	}

	// ---- 2. last accepted block, state root, last execution results
	tip := rep.Tip
	if tip.Height < cLo || tip.Height > cHi {
		return fmt.Errorf("kind=wrong-last-accepted %s last accepted height %d, want %d..%d", where, tip.Height, cLo, cHi)
	}
	cc := tip.Height
	want := ref.Blocks[cc]
	if tip.ID != want.ID {
		return fmt.Errorf("kind=wrong-last-accepted %s last accepted id %s, want %s (height %d)", where, tip.ID, want.ID, cc)
	}
	if tip.ProcHeight != cc || tip.ProcID != want.ID {
		return fmt.Errorf("kind=wrong-last-processed %s consensus index reports accepted block %d/%s, want %d/%s", where, tip.ProcHeight, tip.ProcID, cc, want.ID)
	}
	if tip.Root != want.Root || tip.DBRoot != want.Root || tip.StateHeight != cc {
		return fmt.Errorf("kind=wrong-state-root %s state after restart: view root %s db root %s state height %d, want root %s at height %d", where, tip.Root, tip.DBRoot, tip.StateHeight, want.Root, cc)
	}
	if tip.Results != want.Results {
		return fmt.Errorf("kind=wrong-results %s last execution results after restart differ from the producer's at height %d (got %d hex chars, want %d)", where, cc, len(tip.Results), len(want.Results))
	}

	// ---- 3. deliveries
	logs := map[string][]delivery{"pre-crash": o.PreLog, "post-restart": o.PostLog}
	if o.Mid != nil {
		logs["first-restart"] = o.MidLog
	}
	for name, lg := range logs {
		for i, d := range lg {
			if i > 0 && d.H < lg[i-1].H {
				return fmt.Errorf("kind=out-of-order %s %s deliveries not in height order: %s", where, name, heightsOf(lg))
			}
			if d.H >= uint64(len(ref.Blocks)) || d.ID != ref.Blocks[d.H].ID {
				return fmt.Errorf("kind=wrong-delivery %s %s delivery of height %d carries block %s, producer has %s", where, name, d.H, d.ID, ref.Blocks[min(d.H, uint64(len(ref.Blocks)-1))].ID)
			}
			if d.Results != ref.Blocks[d.H].Results {
				return fmt.Errorf("kind=wrong-delivery-results %s %s delivery of height %d carries execution results that differ from the producer's", where, name, d.H)
			}
		}
	}
	atInit := int(rep.DeliveredAtInit)
	if atInit > len(o.PostLog) {
		atInit = len(o.PostLog)
	}
	got := map[uint64]bool{}
	for _, d := range o.PreLog {
		got[d.H] = true
	}
	for _, d := range o.MidLog {
		got[d.H] = true
	}
	for _, d := range o.PostLog[:atInit] {
		got[d.H] = true
	}
	var missing []uint64
	for h := uint64(1); h <= cc; h++ {
		if !got[h] {
			missing = append(missing, h)
		}
	}
	if len(missing) > 0 {
		known := st.Known("C18-undelivered-after-commit")
		slack := uint64(0)
		if c.Mode == "kill" {
			slack = 1 // a durable write may precede its log line
		}
		for _, h := range missing {
			// signature: state >= h at the crash (committed) and index > h (a later block indexed)
			if !(stateH+slack >= h && cLo+slack > h) {
				known = false
			}
		}
		if !known {
			return fmt.Errorf("kind=undelivered missing=%v %s accepted heights never delivered to the accepted-block subscriber: pre-crash [%s], post-restart until initialised [%s]",
				missing, where, heightsOf(o.PreLog), heightsOf(o.PostLog[:atInit]))
		}
		st.Exclude("C18-undelivered-after-commit")
	}

	// ---- 4. catching up
	if rep.NormalOpErr != "" {
		return fmt.Errorf("kind=normal-op-failed %s %s", where, rep.NormalOpErr)
	}
	if rep.CatchUpErr != "" {
		return fmt.Errorf("kind=catch-up-failed %s %s", where, rep.CatchUpErr)
	}
	if rep.Final == nil {
		return fmt.Errorf("kind=catch-up-failed %s no final report", where)
	}
	fin, wantN := rep.Final, ref.Blocks[max(c.N, cc)]
	if fin.Height != wantN.Height || fin.ID != wantN.ID || fin.ProcHeight != wantN.Height || fin.Root != wantN.Root || fin.DBRoot != wantN.Root || fin.Results != wantN.Results {
		return fmt.Errorf("kind=wrong-final-state %s after catching up: %+v, want height %d id %s root %s", where, *fin, wantN.Height, wantN.ID, wantN.Root)
	}
	for _, d := range o.PostLog[atInit:] {
		got[d.H] = true
	}
	for h := uint64(1); h <= wantN.Height; h++ {
		if !got[h] && !(len(missing) > 0 && h <= cc) {
			return fmt.Errorf("kind=undelivered-after-catch-up %s height %d never delivered", where, h)
		}
	}
	if rep.ShutdownErr != "" {
		return fmt.Errorf("kind=shutdown-failed %s %s", where, rep.ShutdownErr)
	}
	return nil
}

// c18KnownInitFailure returns the id of the open known finding whose signature
// a failed Initialize matches, or "".
func c18KnownInitFailure(c c18Case, initError string, gap int64, st *vstat.Stats) string {
	// index - state at the crash: exact in exit mode; in kill mode the kill
	// may fall between a durable write and its log line, on either side
	gapLo, gapHi := gap, gap
	if c.Mode == "kill" {
		gapLo, gapHi = gap-1, gap+1
	}
	switch {
	case st.Known("C18-restart-gap") && gapHi >= 2 && strings.Contains(initError, "cannot extract latest output block from invalid state"):
		return "C18-restart-gap"
	case st.Known("C18-restart-nil-chain") && gapLo <= 1 && 1 <= gapHi && strings.Contains(initError, "nil pointer dereference"):
		return "C18-restart-nil-chain"
	case st.Known("C18-restart-compact") && strings.Contains(initError, "Compact start"):
		return "C18-restart-compact"
	}
	return ""
}

func c18Run(c c18Case, st *vstat.Stats) error {
	if err := c.valid(); err != nil {
		return errInconclusive{"invalid case: " + err.Error()}
	}
	o := c18Execute(c)
	if os.Getenv("C18_TIMING") != "" {
		fmt.Fprintf(os.Stderr, "timing %s: follow %v restart %v\n", c.canonical(), o.Follow.Dur, o.Restart.Dur)
	}
	return c18Judge(c, o, st)
}

// ---------------------------------------------------------------------------
// generators
// ---------------------------------------------------------------------------

// c18GenExit draws an exit-mode case. outsideKnown: the known findings
// C18-restart-nil-chain and C18-restart-gap are open, i.e. every crash that
// leaves index > state is already known to end in a failed restart; two
// thirds of the cases are then constructed outside that class (the crash
// leaves index == state: after the state commit of block k with no backlog),
// the rest still comes from the whole space so that the exclusion keeps being
// exercised (and stops excluding as soon as the defect is repaired).
func c18GenExit(rt *rapid.T, outsideKnown bool) c18Case {
	c := c18Case{Mode: "exit"}
	c.N = uint64(rapid.IntRange(6, maxChainLen).Draw(rt, "n"))
	if outsideKnown && rapid.IntRange(0, 2).Draw(rt, "whole_space") != 0 {
		c.Point = rapid.SampledFrom([]string{ptCommitted, ptChainAcc, ptNotified}).Draw(rt, "point")
		c.K = uint64(rapid.IntRange(1, int(c.N)).Draw(rt, "k"))
		c.Boot = rapid.IntRange(0, 3).Draw(rt, "boot") == 0
		c.Race = rapid.Bool().Draw(rt, "race")
		return c
	}
	c.Point = rapid.SampledFrom(allPoints).Draw(rt, "point")
	c.K = uint64(rapid.IntRange(1, int(c.N)).Draw(rt, "k"))
	maxD := c.N - c.K
	if consensusPoint(c.Point) {
		maxD = c.K - 1
	}
	// a third of the cases have no backlog (the restart paths for index == state
	// and index == state+1 differ from the general one)
	if rapid.IntRange(0, 2).Draw(rt, "no_backlog") != 0 {
		c.D = uint64(rapid.IntRange(0, int(maxD)).Draw(rt, "d"))
	}
	c.Boot = rapid.IntRange(0, 3).Draw(rt, "boot") == 0
	if !consensusPoint(c.Point) {
		c.Race = rapid.Bool().Draw(rt, "race")
	}
	// second-order crash: recovery re-accepts the blocks state+1..index through
	// vm.AcceptBlock; let the first restart die inside one of them
	if index, state := c.planned(); index > state && rapid.IntRange(0, 2).Draw(rt, "second_crash") == 0 {
		c.Crash2 = rapid.SampledFrom([]string{ptResults, ptCommitted}).Draw(rt, "crash2")
		c.Crash2K = uint64(rapid.IntRange(int(state)+1, int(index)).Draw(rt, "crash2_k"))
	}
	return c
}

func c18GenKill(rt *rapid.T) c18Case {
	c := c18Case{Mode: "kill"}
	c.N = uint64(rapid.IntRange(6, maxChainLen).Draw(rt, "n"))
	c.Target = uint64(rapid.IntRange(1, int(c.N)).Draw(rt, "target"))
	c.Hold = uint64(rapid.IntRange(0, int(c.Target)).Draw(rt, "hold"))
	// accepting 10 blocks takes a few tens of milliseconds
	c.DelayUs = rapid.OneOf(rapid.IntRange(0, 5000), rapid.IntRange(0, 40000), rapid.IntRange(0, 150000)).Draw(rt, "delay_us")
	c.Boot = rapid.IntRange(0, 3).Draw(rt, "boot") == 0
	return c
}

const c18Rule = "a follower node (real vm.VM in snow.VM on pebble) accepts the producer's chain and dies by os.Exit inside hook point P of block k with backlog d (blocks indexed+queued but unprocessed), then a new process restarts on the same directory, reports, and catches up to N; non-trivial = the crash left an accepted block part-way through the pipeline (index > state, or state committed but subscribers not notified) and the trial did not end in a known finding's failed restart; with probability 1/2 (accepter-side points) the last Accept call is still in progress at the crash, and with probability 1/3 the first restart dies too (inside the re-accept of a generated block of the backlog) so that a second restart is judged; distinct by (point,k,d,N,bootstrapping,race,second crash)"

// ---------------------------------------------------------------------------
// tests
// ---------------------------------------------------------------------------

func c18Fail(t vstat.TB, err error) bool {
	var inc errInconclusive
	if errors.As(err, &inc) {
		return true
	}
	return false
}

func TestC18(t *testing.T) {
	defer cleanupWork()
	st := vstat.New(t, "C18", c18Rule)
	st.Assumption("crash = process death between durable writes (os.Exit inside a hook point / SIGKILL); torn writes, fsync lies and disk corruption are out of scope")
	st.Assumption("the follower receives the blocks of a producer that never crashed; reference values (id, state root, execution results per height) are the producer's")
	inconclusive := 0
	rapid.Check(t, func(rt *rapid.T) {
		c := c18GenExit(rt, st.Known("C18-restart-nil-chain") && st.Known("C18-restart-gap"))
		vstat.Run(rt, st, c, func() error {
			err := c18Run(c, st)
			if err != nil && c18Fail(rt, err) {
				inconclusive++
				st.Skip("inconclusive-trial")
				rt.Logf("%v", err)
				return nil
			}
			return err
		})
	})
	if inconclusive > 2 {
		t.Fatalf("INCONCLUSIVE: %d trials without a verdict", inconclusive)
	}
}

func TestC18Kill(t *testing.T) {
	defer cleanupWork()
	st := vstat.New(t, "C18", "SIGKILL of the follower at a generated delay after it started accepting 1..target (accepter optionally held at process-start(hold) until target is indexed); the crash position is read from the follower's hook-point log; non-trivial = the kill left an accepted block part-way through the pipeline (index > state, or committed but not notified)")
	inconclusive := 0
	rapid.Check(t, func(rt *rapid.T) {
		c := c18GenKill(rt)
		vstat.Run(rt, st, c, func() error {
			err := c18Run(c, st)
			if err != nil && c18Fail(rt, err) {
				inconclusive++
				st.Skip("inconclusive-trial")
				rt.Logf("%v", err)
				return nil
			}
			return err
		})
	})
	if inconclusive > 2 {
		t.Fatalf("INCONCLUSIVE: %d trials without a verdict", inconclusive)
	}
}

// c18Grid is the complete finite grid point x k x d for a chain of n blocks.
func c18Grid(n uint64, boot, race bool) []c18Case {
	var out []c18Case
	for _, p := range allPoints {
		for k := uint64(1); k <= n; k++ {
			maxD := n - k
			if consensusPoint(p) {
				maxD = k - 1
			}
			for d := uint64(0); d <= maxD; d++ {
				if race && consensusPoint(p) {
					continue
				}
				out = append(out, c18Case{Mode: "exit", Point: p, K: k, D: d, N: n, Boot: boot, Race: race})
			}
		}
	}
	return out
}

func c18RunGrid(t *testing.T, st *vstat.Stats, cases []c18Case) {
	// every trial is two or three multi-threaded node processes
	workers := runtime.GOMAXPROCS(0) / 2
	if w, err := strconv.Atoi(os.Getenv("C18_WORKERS")); err == nil && w > 0 {
		workers = w
	}
	if workers < 1 {
		workers = 1
	}
	if _, _, err := reference(); err != nil {
		t.Fatalf("INCONCLUSIVE: producer: %v", err)
	}
	outs := make([]c18Outcome, len(cases))
	var wg sync.WaitGroup
	next := make(chan int)
	for w := 0; w < workers; w++ {
		wg.Add(1)
		go func() {
			defer wg.Done()
			for i := range next {
				outs[i] = c18Execute(cases[i])
			}
		}()
	}
	for i := range cases {
		next <- i
	}
	close(next)
	wg.Wait()
	inconclusive := 0
	var failures []string
	var firstCase *c18Case
	var firstErr error
	for i, c := range cases {
		err := c18Judge(c, outs[i], st)
		var inc errInconclusive
		if errors.As(err, &inc) {
			inconclusive++
			st.Skip("inconclusive-trial")
			t.Logf("%s: %v", c.canonical(), err)
			continue
		}
		if err != nil {
			failures = append(failures, fmt.Sprintf("%s: %v", c.canonical(), err))
			if firstErr == nil {
				cc := c
				firstCase, firstErr = &cc, err
			}
		}
	}
	sort.Strings(failures)
	for _, f := range failures {
		t.Logf("grid failure: %s", f)
	}
	st.SetExtra("grid_cells", len(cases))
	st.SetExtra("grid_failures", len(failures))
	if firstErr != nil {
		// the first failing grid cell becomes the replay file
		vstat.Run(t, st, *firstCase, func() error {
			return fmt.Errorf("%d of %d grid cells fail; first: %w", len(failures), len(cases), firstErr)
		})
	}
	if inconclusive > len(cases)/20 {
		t.Fatalf("INCONCLUSIVE: %d of %d grid cells without a verdict", inconclusive, len(cases))
	}
}

// TestC18Exhaustive enumerates the whole grid (crash point x block k x backlog
// d) for a chain of 8 blocks, in normal operation and while bootstrapping.
func TestC18Exhaustive(t *testing.T) {
	defer cleanupWork()
	st := vstat.New(t, "C18", "exhaustive: every (crash point P in the 7 hook points) x (block k in 1..8) x (backlog d in 0..8-k for accepter-side points, 0..k-1 for consensus-side points), follower in normal operation and in bootstrapping state, plus every accepter-side cell again with the last Accept call still in progress, N=8")
	st.Exhaustive = true
	cases := append(c18Grid(8, false, false), c18Grid(8, true, false)...)
	cases = append(cases, c18Grid(8, false, true)...)
	if dev := os.Getenv("C18_DEV_GRID"); dev != "" { // development only: a smaller grid
		n, _ := strconv.Atoi(dev)
		cases = append(c18Grid(uint64(n), false, false), c18Grid(uint64(n), false, true)...)
		st.Exhaustive = false
	}
	c18RunGrid(t, st, cases)
}

// TestC18Replay shows the raw verdict of one case: known findings are not
// excluded here, so a seed case of an open finding replays as a failure.
func TestC18Replay(t *testing.T) {
	defer cleanupWork()
	os.Unsetenv("VERIF_KNOWN")
	vstat.Replay(t, "C18", func(raw []byte) error {
		var c c18Case
		if err := json.Unmarshal(raw, &c); err != nil {
			return err
		}
		err := c18Run(c, vstat.New(nil, "C18", ""))
		var inc errInconclusive
		if errors.As(err, &inc) {
			t.Skipf("%v", err)
		}
		return err
	})
}
