package crash

import (
	"context"
	"encoding/json"
	"fmt"
	"os"
	"testing"
	"time"

	"github.com/ava-labs/avalanchego/ids"
	avasnow "github.com/ava-labs/avalanchego/snow"
	"github.com/ava-labs/avalanchego/snow/engine/snowman/block"
	"github.com/ava-labs/avalanchego/x/merkledb"
	"pgregory.net/rapid"

	"github.com/ava-labs/hypersdk/chain"
	"github.com/ava-labs/hypersdk/genesis"
	"github.com/ava-labs/hypersdk/verifharness/vstat"
)

// C11 (genesis child, node level): through a full node (vm.VM inside snow.VM)
// the first block verifies only if its timestamp is at least the GENESIS
// BLOCK's timestamp plus the gap -- block timestamps never decrease along a
// verified chain, starting from genesis. (The processor reads the parent
// timestamp from state, which is 0 for genesis; chainexec/TestC11 covers all
// other parents.)

type c11gCase struct {
	Gap      int64
	EmptyGap int64
	// child timestamps = genesis block timestamp + D for every D in Deltas;
	// Abs lists absolute timestamps (small values near the state timestamp 0)
	Deltas []int64
	Abs    []int64
}

func c11gRun(c c11gCase, st *vstat.Stats) error {
	ctx := context.Background()
	rules := genesis.NewDefaultRules()
	rules.MinBlockGap, rules.MinEmptyBlockGap = c.Gap, c.EmptyGap
	gen := &genesis.DefaultGenesis{StateBranchFactor: merkledb.BranchFactor16, Rules: rules}
	genesisBytes, err := json.Marshal(gen)
	if err != nil {
		return err
	}
	dir, err := os.MkdirTemp(os.Getenv("VERIF_WORK"), "c11g-")
	if err != nil {
		return err
	}
	defer os.RemoveAll(dir)
	n, err := startNode(ctx, dir, genesisBytes, nil)
	if err != nil {
		return fmt.Errorf("node init: %w", err)
	}
	defer func() { _ = n.snow.Shutdown(ctx) }()
	if err := n.snow.SetState(ctx, avasnow.Bootstrapping); err != nil {
		return err
	}
	if err := n.snow.SetState(ctx, avasnow.NormalOp); err != nil {
		return err
	}
	g := n.snow.LastAcceptedBlock(ctx)
	gts := g.Input.GetTimestamp()
	t0, err := n.tip(ctx)
	if err != nil {
		return err
	}
	root, err := ids.FromString(t0.Root)
	if err != nil {
		return err
	}
	need := c.Gap
	if c.EmptyGap > need {
		need = c.EmptyGap // the generated children are empty blocks
	}
	var tss []int64
	for _, d := range c.Deltas {
		tss = append(tss, gts+d)
	}
	tss = append(tss, c.Abs...)
	older := false
	for _, ts := range tss {
		if ts < 0 {
			continue
		}
		want := ts >= gts+need
		sb, err := chain.NewStatelessBlock(g.ID(), ts, 1, nil, root, &block.Context{})
		if err != nil {
			return err
		}
		_, verr := n.parseVerify(ctx, sb.GetBytes())
		if ts < gts {
			older = true
		}
		if want && verr != nil {
			return fmt.Errorf("child of genesis with timestamp genesis+%d (gap %d, empty gap %d) rejected: %v", ts-gts, c.Gap, c.EmptyGap, verr)
		}
		if !want && verr == nil {
			return fmt.Errorf("child of genesis with timestamp %d verified although the genesis block's timestamp is %d (gap %d, empty gap %d): the chain's timestamps decrease", ts, gts, c.Gap, c.EmptyGap)
		}
	}
	raw, _ := json.Marshal(c)
	lbl := "only-newer-children"
	if older {
		lbl = "child-older-than-genesis"
	}
	st.Case(true, string(raw), lbl)
	st.Sample(true, map[string]any{"gap": c.Gap, "emptyGap": c.EmptyGap, "deltas": c.Deltas, "abs": c.Abs, "genesis_ts": gts})
	_ = time.Now
	return nil
}

func TestC11Genesis(t *testing.T) {
	st := vstat.New(t, "C11", "node level: a full node initialised from a generated genesis (gaps from {0,1,100,750,2500}); empty children of the genesis block with timestamps genesis+{gap, emptyGap}+-{0,1,2}, far below genesis (0, 1, gap, emptyGap: the values the state timestamp 0 would admit) and well above; parse+Verify must accept iff timestamp >= genesis block timestamp + max(gap, emptyGap)")
	rapid.Check(t, func(rt *rapid.T) {
		c := c11gCase{
			Gap:      rapid.SampledFrom([]int64{0, 1, 100, 750}).Draw(rt, "gap"),
			EmptyGap: rapid.SampledFrom([]int64{0, 1, 100, 750, 2500}).Draw(rt, "emptygap"),
		}
		need := c.Gap
		if c.EmptyGap > need {
			need = c.EmptyGap
		}
		for i := 0; i < 4; i++ {
			c.Deltas = append(c.Deltas, need+rapid.SampledFrom([]int64{0, 0, 1, -1, -2, 2, 1000, 60000, -1000, -need}).Draw(rt, fmt.Sprintf("d%d", i)))
		}
		for i := 0; i < 2; i++ {
			c.Abs = append(c.Abs, rapid.SampledFrom([]int64{0, 1, c.Gap, c.EmptyGap, need, need + 1, 1000, 1_000_000}).Draw(rt, fmt.Sprintf("abs%d", i)))
		}
		vstat.Run(rt, st, c, func() error { return c11gRun(c, st) })
	})
}

func TestC11GenesisReplay(t *testing.T) {
	vstat.Replay(t, "C11", func(raw []byte) error {
		var c c11gCase
		if err := json.Unmarshal(raw, &c); err != nil {
			return err
		}
		return c11gRun(c, vstat.New(nil, "C11", ""))
	})
}
