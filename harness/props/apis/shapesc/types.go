// Package shapesc is "VM C": again the type names of shapesa, a third layout
// (same JSON field names with other types, other type ids, other order).
package shapesc

import (
	"github.com/ava-labs/hypersdk/codec"
	"github.com/ava-labs/hypersdk/verifharness/props/apis/shapekit"
)

type Leg struct {
	Amount int64 `serialize:"true" json:"amount"`
}

type Meta struct {
	Note []byte `serialize:"true" json:"note"`
}

type Transfer struct {
	shapekit.Base
	Value uint64        `serialize:"true" json:"value"`
	To    codec.Address `serialize:"true" json:"to"`
	Memo  string        `serialize:"true" json:"memo"`
}

type Order struct {
	shapekit.Base
	Meta Meta      `serialize:"true" json:"meta"`
	Legs [][2]Leg  `serialize:"true" json:"legs"`
	Tail [3]uint16 `serialize:"true" json:"tail"`
}

type Receipt struct {
	Paid int8 `serialize:"true" json:"paid"`
}

func (*Transfer) GetTypeID() uint8 { return 5 }
func (*Order) GetTypeID() uint8    { return 1 }
func (*Receipt) GetTypeID() uint8  { return 7 }

func (t *Transfer) Bytes() []byte { return shapekit.Bytes(t.GetTypeID(), t) }
func (t *Order) Bytes() []byte    { return shapekit.Bytes(t.GetTypeID(), t) }
func (t *Receipt) Bytes() []byte  { return shapekit.Bytes(t.GetTypeID(), t) }

var Family = shapekit.NewFamily("C")

func init() {
	shapekit.RegAction[Transfer](Family)
	shapekit.RegAction[Order](Family)
	shapekit.RegOutput[Receipt](Family)
}
