// Package shapesb is "VM B": the type names of shapesa with other layouts
// (extra fields, narrower integers, other array lengths, other field order).
package shapesb

import (
	"github.com/ava-labs/hypersdk/codec"
	"github.com/ava-labs/hypersdk/verifharness/props/apis/shapekit"
)

type Leg struct {
	Amount uint32   `serialize:"true" json:"amount"`
	Asset  [8]uint8 `serialize:"true" json:"asset"`
	Side   bool     `serialize:"true" json:"side"`
}

type Meta struct {
	Tags []string `serialize:"true" json:"tags"`
	Note string   `serialize:"true" json:"note"`
	Seq  int16    `serialize:"true" json:"seq"`
}

type Transfer struct {
	shapekit.Base
	To    codec.Address `serialize:"true" json:"to"`
	Asset [4]uint8      `serialize:"true" json:"asset"`
	Value uint32        `serialize:"true" json:"value"`
	Memo  []byte        `serialize:"true" json:"memo"`
}

type Order struct {
	shapekit.Base
	Nonce uint64 `serialize:"true" json:"nonce"`
	Legs  [2]Leg `serialize:"true" json:"legs"`
	Meta  Meta   `serialize:"true" json:"meta"`
}

type Receipt struct {
	Leg  Leg    `serialize:"true" json:"leg"`
	Paid uint16 `serialize:"true" json:"paid"`
	Ok   bool   `serialize:"true" json:"ok"`
}

func (*Transfer) GetTypeID() uint8 { return 0 }
func (*Order) GetTypeID() uint8    { return 1 }
func (*Receipt) GetTypeID() uint8  { return 0 }

func (t *Transfer) Bytes() []byte { return shapekit.Bytes(t.GetTypeID(), t) }
func (t *Order) Bytes() []byte    { return shapekit.Bytes(t.GetTypeID(), t) }
func (t *Receipt) Bytes() []byte  { return shapekit.Bytes(t.GetTypeID(), t) }

var Family = shapekit.NewFamily("B")

func init() {
	shapekit.RegAction[Transfer](Family)
	shapekit.RegAction[Order](Family)
	shapekit.RegOutput[Receipt](Family)
}
