package apis

import (
	"bytes"
	"context"
	"encoding/binary"
	"encoding/json"
	"errors"
	"fmt"
	"math"
	"net/http"
	"sort"
	"testing"

	"github.com/ava-labs/avalanchego/database"
	"github.com/ava-labs/avalanchego/ids"
	"github.com/ava-labs/avalanchego/snow/validators"
	"github.com/ava-labs/avalanchego/trace"
	"github.com/ava-labs/avalanchego/utils/logging"
	"github.com/ava-labs/avalanchego/x/merkledb"
	"pgregory.net/rapid"

	"github.com/ava-labs/hypersdk/abi"
	"github.com/ava-labs/hypersdk/api"
	"github.com/ava-labs/hypersdk/api/jsonrpc"
	"github.com/ava-labs/hypersdk/chain"
	"github.com/ava-labs/hypersdk/codec"
	"github.com/ava-labs/hypersdk/examples/morpheusvm/actions"
	"github.com/ava-labs/hypersdk/examples/morpheusvm/storage"
	"github.com/ava-labs/hypersdk/fees"
	"github.com/ava-labs/hypersdk/genesis"
	"github.com/ava-labs/hypersdk/state"
	"github.com/ava-labs/hypersdk/state/tstate"
	"github.com/ava-labs/hypersdk/verifharness/fixture"
	"github.com/ava-labs/hypersdk/verifharness/vstat"

	mconsts "github.com/ava-labs/hypersdk/examples/morpheusvm/consts"
	internalfees "github.com/ava-labs/hypersdk/internal/fees"
)

// C30: for any actor and action list, ExecuteActions and SimulateActions
// return the outputs the same actions produce inside a transaction executed
// on the same state; the keys simulation reports are sufficient.
//
// Demands (derived from the statement; the transaction runs with zero unit
// prices so that the fee does not touch the state the actions see):
//   D1  ExecuteActions: reply.Outputs == Result.Outputs of the transaction
//       (all outputs when it succeeds, the outputs of the actions before the
//       failing one when it fails) and reply.Error != "" iff !Result.Success.
//   D2  transaction succeeds  =>  SimulateActions succeeds with the same
//       outputs (hence: SimulateActions errors => the transaction fails).
//   D3  SimulateActions succeeds => (a) each action, re-executed in order in
//       a view scoped to exactly the keys/permissions reported for it,
//       succeeds with the reported output; (b) a transaction whose
//       ProgActions declare exactly the reported keys succeeds with the
//       reported outputs.
// Simulation ignores what actions declare, so a transaction that fails only
// because an action under-declared may simulate fine; that is what D3(b) is
// for and why D2 is one-directional.

const c30FindingF1 = "F1-tstate-remove-recreated" // tstate: delete -> re-create -> delete of a parent key resurrects the parent value

const (
	c30NAddr      = 4
	c30SponsorIdx = 4 // dedicated sponsor, never touched by actions
)

type c30KV struct{ K, V []byte }

type c30Xfer struct {
	To    int
	Value uint64
	Memo  []byte `json:",omitempty"`
}

type c30Action struct {
	X *c30Xfer         `json:",omitempty"`
	P *fixture.ActSpec `json:",omitempty"`
}

type c30Case struct {
	MaxActions     uint8
	State          []c30KV  // non-balance keys present in the state
	Balances       [][]byte // raw value of the balance entry of address i; nil = absent
	Actor          int
	SponsorIsActor bool
	Actions        []c30Action
}

var (
	c30Universe = [][]byte{
		fixture.UKey('a', 1), fixture.UKey('a', 2), fixture.UKey('b', 1), fixture.UKey('b', 2),
		fixture.UKey('c', 1), fixture.UKey('c', 2), fixture.UKey('d', 0),
	}
	c30Undeclared = fixture.UKey('z', 1) // used by ops, declared by nobody
)

func c30BalKey(i int) []byte { return storage.BalanceKey(fixture.Addr(i)) }

func c30MaxChunks(k []byte) uint16 { return binary.BigEndian.Uint16(k[len(k)-2:]) }

func c30NumChunks(v []byte) int {
	if len(v) == 0 {
		return 0
	}
	return len(v)/64 + 1
}

func c30U64(v uint64) []byte { return binary.BigEndian.AppendUint64(nil, v) }

// ---------------------------------------------------------------- generator

// c30Rare is true with probability 2^-k (rapid's integer generators are
// biased towards small values, its booleans are fair).
func c30Rare(rt *rapid.T, lbl string, k int) bool {
	for _, b := range rapid.SliceOfN(rapid.Bool(), k, k).Draw(rt, lbl) {
		if !b {
			return false
		}
	}
	return true
}

func c30GenValue(rt *rapid.T, lbl string, k []byte) []byte {
	if bytes.HasPrefix(k, c30BalKey(0)[:1]) && len(k) == len(c30BalKey(0)) {
		if c30Rare(rt, lbl+"junk", 5) {
			return []byte{1, 2, 3}
		}
		return c30U64(rapid.SampledFrom([]uint64{0, 1, 2, 3, 5, 10, 10, 1000, 1000, 1 << 63, math.MaxUint64}).Draw(rt, lbl+"bal"))
	}
	lens := []int{0, 0}
	ch := c30MaxChunks(k)
	if ch >= 1 {
		lens = append(lens, 1, 8, 63)
	}
	if ch >= 2 {
		lens = append(lens, 64, 127)
	}
	if c30Rare(rt, lbl+"oversize", 6) {
		lens = []int{1, 64, 128, 200}
	}
	n := rapid.SampledFrom(lens).Draw(rt, lbl+"len")
	return bytes.Repeat([]byte{rapid.Byte().Draw(rt, lbl+"fill")}, n)
}

func c30Gen(rt *rapid.T) c30Case {
	c := c30Case{MaxActions: rapid.SampledFrom([]uint8{1, 2, 4, 8, 16, 16}).Draw(rt, "maxActions")}
	for i, k := range c30Universe {
		if rapid.IntRange(0, 2).Draw(rt, fmt.Sprintf("has%d", i)) != 0 {
			lens := []int{0}
			if c30MaxChunks(k) >= 1 {
				lens = []int{0, 1, 8, 8, 63}
			}
			if c30MaxChunks(k) >= 2 {
				lens = append(lens, 64, 127)
			}
			n := rapid.SampledFrom(lens).Draw(rt, fmt.Sprintf("sv%dlen", i))
			c.State = append(c.State, c30KV{K: k, V: bytes.Repeat([]byte{rapid.Byte().Draw(rt, fmt.Sprintf("sv%dfill", i))}, n)})
		}
	}
	for a := 0; a < c30NAddr; a++ {
		switch ch := rapid.IntRange(0, 31).Draw(rt, fmt.Sprintf("bal%dkind", a)); {
		case ch <= 4:
			c.Balances = append(c.Balances, nil)
		case ch == 5:
			c.Balances = append(c.Balances, []byte{9, 9})
		default:
			c.Balances = append(c.Balances, c30U64(rapid.SampledFrom([]uint64{0, 1, 2, 3, 5, 10, 10, 12, 1000, 1000, 1 << 63, math.MaxUint64 - 1, math.MaxUint64}).Draw(rt, fmt.Sprintf("bal%d", a))))
		}
	}
	c.Actor = rapid.IntRange(0, c30NAddr-1).Draw(rt, "actor")
	if !c30Rare(rt, "actorUnfunded", 3) {
		c.Balances[c.Actor] = c30U64(rapid.SampledFrom([]uint64{3, 5, 10, 10, 12, 20, 1000, 1 << 63, math.MaxUint64}).Draw(rt, "actorBalance"))
	}
	c.SponsorIsActor = rapid.IntRange(0, 2).Draw(rt, "sponsorIsActor") == 0

	n := 1
	if c.MaxActions > 1 {
		n = rapid.IntRange(1, int(c.MaxActions)).Draw(rt, "nactions")
		if n == 1 && rapid.Bool().Draw(rt, "atLeast2") {
			n = 2
		}
	}
	// which actions are transfers is decided first: the permissions under
	// which ProgActions declare balance keys depend on it (see c30Run).
	isX := make([]bool, n)
	for i := range isX {
		isX[i] = rapid.IntRange(0, 2).Draw(rt, fmt.Sprintf("a%d.isTransfer", i)) == 0
	}
	// one permission per key for the whole list
	pool := append(append([][]byte{}, c30Universe...), c30BalKey(0), c30BalKey(1), c30BalKey(2), c30BalKey(3))
	perm := map[string]uint8{}
	for i, k := range pool {
		perm[string(k)] = 7
		if c30Rare(rt, fmt.Sprintf("perm%dodd", i), 4) {
			perm[string(k)] = rapid.SampledFrom([]uint8{5, 5, 3, 1, 1, 0, 4, 6}).Draw(rt, fmt.Sprintf("perm%d", i))
		}
	}
	// most ProgActions of a list work on a few hot keys, so that later actions
	// see what earlier ones did
	hot := rapid.SliceOfN(rapid.SampledFrom(pool), 1, 3).Draw(rt, "hot")
	c.Actions = make([]c30Action, n)
	for i := 0; i < n; i++ {
		if isX[i] {
			c.Actions[i].X = &c30Xfer{
				To:    rapid.IntRange(0, c30NAddr-1).Draw(rt, fmt.Sprintf("a%d.to", i)),
				Value: rapid.SampledFrom([]uint64{1, 1, 1, 1, 1, 1, 2, 2, 2, 2, 3, 3, 3, 5, 5, 10, 12, 999, 1 << 63, 0}).Draw(rt, fmt.Sprintf("a%d.value", i)),
				Memo:  bytes.Repeat([]byte{'m'}, rapid.SampledFrom([]int{0, 0, 5, actions.MaxMemoSize}).Draw(rt, fmt.Sprintf("a%d.memo", i))),
			}
			perm[string(c30BalKey(c.Actor))] |= 5
			perm[string(c30BalKey(c.Actions[i].X.To))] |= 7
		}
	}
	if c.SponsorIsActor {
		perm[string(c30BalKey(c.Actor))] |= 5
	}
	for i := 0; i < n; i++ {
		if isX[i] {
			continue
		}
		lbl := fmt.Sprintf("a%d.", i)
		a := &fixture.ActSpec{Start: -1, End: -1, Compute: 1, Nonce: uint64(i)}
		nk := rapid.IntRange(1, 3).Draw(rt, lbl+"nkeys")
		for j := 0; j < nk; j++ {
			k := rapid.SampledFrom(hot).Draw(rt, fmt.Sprintf("%sk%d", lbl, j))
			if rapid.IntRange(0, 4).Draw(rt, fmt.Sprintf("%scold%d", lbl, j)) == 0 {
				k = rapid.SampledFrom(pool).Draw(rt, fmt.Sprintf("%sck%d", lbl, j))
			}
			a.Keys = append(a.Keys, fixture.KeyDecl{Key: k, Perm: perm[string(k)]})
		}
		nops := rapid.IntRange(0, 5).Draw(rt, lbl+"nops")
		failAt := -1
		if c30Rare(rt, lbl+"hasFail", 6) {
			failAt = rapid.IntRange(0, nops).Draw(rt, lbl+"failAt")
		}
		for j := 0; j <= nops; j++ {
			if j == failAt {
				a.Ops = append(a.Ops, fixture.Op{Kind: fixture.OpFail})
				break
			}
			if j == nops {
				break
			}
			ol := fmt.Sprintf("%so%d.", lbl, j)
			key := a.Keys[rapid.IntRange(0, len(a.Keys)-1).Draw(rt, ol+"ki")].Key
			if c30Rare(rt, ol+"undeclared", 7) {
				key = c30Undeclared
			}
			switch rapid.SampledFrom([]uint8{0, 0, 0, 1, 1, 1, 2, 2}).Draw(rt, ol+"kind") {
			case fixture.OpGet:
				a.Ops = append(a.Ops, fixture.Op{Kind: fixture.OpGet, Key: key})
			case fixture.OpPut:
				a.Ops = append(a.Ops, fixture.Op{Kind: fixture.OpPut, Key: key, Val: c30GenValue(rt, ol, key)})
			default:
				a.Ops = append(a.Ops, fixture.Op{Kind: fixture.OpDel, Key: key})
			}
		}
		c.Actions[i].P = a
	}
	return c
}

// ---------------------------------------------------------------- materialisation

func (c c30Case) stateMap() map[string][]byte {
	m := map[string][]byte{}
	for _, kv := range c.State {
		m[string(kv.K)] = kv.V
	}
	for i, b := range c.Balances {
		if b != nil {
			m[string(c30BalKey(i))] = b
		}
	}
	m[string(c30BalKey(c30SponsorIdx))] = c30U64(1 << 40)
	return m
}

func (c c30Case) sponsor() int {
	if c.SponsorIsActor && c.Actor < len(c.Balances) {
		if b := c.Balances[c.Actor]; len(b) == 8 && binary.BigEndian.Uint64(b) > 0 {
			return c.Actor
		}
	}
	return c30SponsorIdx
}

// build returns fresh action objects; redeclare (optional) replaces the keys
// a ProgAction declares.
func (c c30Case) build(redeclare []state.Keys) []chain.Action {
	out := make([]chain.Action, len(c.Actions))
	for i, a := range c.Actions {
		switch {
		case a.X != nil:
			out[i] = &actions.Transfer{To: fixture.Addr(a.X.To), Value: a.X.Value, Memo: append([]byte{}, a.X.Memo...)}
		default:
			spec := *a.P
			if redeclare != nil {
				spec.Keys = nil
				ks := make([]string, 0, len(redeclare[i]))
				for k := range redeclare[i] {
					ks = append(ks, k)
				}
				sort.Strings(ks)
				for _, k := range ks {
					spec.Keys = append(spec.Keys, fixture.KeyDecl{Key: []byte(k), Perm: uint8(redeclare[i][k])})
				}
			}
			out[i] = spec.Action()
		}
	}
	return out
}

var c30Parser = &fixture.Parser{ExtraActions: map[uint8]func([]byte) (chain.Action, error){
	mconsts.TransferID: actions.UnmarshalTransfer,
}}

// c30VM is the api.VM the JSON-RPC server runs against: a real merkledb
// holding the generated state, served the way vm.VM serves it.
type c30VM struct {
	db    merkledb.MerkleDB
	rules *genesis.Rules
}

var _ api.VM = (*c30VM)(nil)

func (*c30VM) GetDataDir() string                   { return "" }
func (*c30VM) GetGenesisBytes() []byte              { return nil }
func (*c30VM) Genesis() genesis.Genesis             { return nil }
func (*c30VM) ChainID() ids.ID                      { return fixture.ChainID }
func (*c30VM) NetworkID() uint32                    { return 0 }
func (*c30VM) SubnetID() ids.ID                     { return ids.Empty }
func (*c30VM) Tracer() trace.Tracer                 { return trace.Noop }
func (*c30VM) Logger() logging.Logger               { return logging.NoLog{} }
func (*c30VM) GetParser() chain.Parser              { return c30Parser }
func (*c30VM) GetABI() abi.ABI                      { return abi.ABI{} }
func (v *c30VM) GetRuleFactory() chain.RuleFactory  { return fixture.RuleFactory{R: v.rules} }
func (*c30VM) BalanceHandler() chain.BalanceHandler { return &storage.BalanceHandler{} }
func (*c30VM) Submit(context.Context, []*chain.Transaction) []error {
	return nil
}

func (*c30VM) LastAcceptedBlock(context.Context) (*chain.StatelessBlock, error) {
	return nil, errors.New("not available")
}

func (*c30VM) UnitPrices(context.Context) (fees.Dimensions, error) { return fees.Dimensions{}, nil }
func (*c30VM) CurrentValidators(context.Context) (map[ids.NodeID]*validators.GetValidatorOutput, map[string]struct{}) {
	return nil, nil
}

func (v *c30VM) ReadState(ctx context.Context, keys [][]byte) ([][]byte, []error) {
	return v.db.GetValues(ctx, keys)
}

func (v *c30VM) ImmutableState(ctx context.Context) (state.Immutable, error) {
	return v.db.NewView(ctx, merkledb.ViewChanges{MapOps: nil, ConsumeBytes: true})
}

// runTx executes the actions inside one transaction (StubAuth, zero prices)
// on the state held by db, the way the chain does: declared keys are fetched
// from the state into the view's storage, then Transaction.Execute runs.
func c30RunTx(ctx context.Context, db merkledb.MerkleDB, rules *genesis.Rules, acts []chain.Action, actor, sponsor codec.Address, now int64) (*chain.Result, state.Keys, error) {
	auth := &fixture.StubAuth{SponsorAddr: sponsor, ActorAddr: actor, Start: -1, End: -1, Valid: true}
	tx, err := chain.NewTransaction(chain.Base{Timestamp: (now/1000 + 10) * 1000, ChainID: fixture.ChainID, MaxFee: 0}, acts, auth)
	if err != nil {
		return nil, nil, fmt.Errorf("NewTransaction: %w", err)
	}
	bh := &storage.BalanceHandler{}
	keys, err := tx.StateKeys(bh)
	if err != nil {
		return nil, nil, fmt.Errorf("tx.StateKeys: %w", err)
	}
	stor := map[string][]byte{}
	for k := range keys {
		v, err := db.GetValue(ctx, []byte(k))
		switch {
		case err == nil:
			stor[k] = v
		case errors.Is(err, database.ErrNotFound):
		default:
			return nil, nil, err
		}
	}
	ts := tstate.New(len(keys))
	view := ts.NewView(keys, state.ImmutableStorage(stor), len(keys))
	fm := internalfees.NewManager(nil) // all unit prices zero
	res, err := tx.Execute(ctx, fm, bh, rules, view, now)
	if err != nil {
		return nil, nil, fmt.Errorf("tx.Execute: %w", err)
	}
	if res.Fee != 0 {
		return nil, nil, fmt.Errorf("harness: fee %d with zero prices", res.Fee)
	}
	return res, keys, nil
}

func c30Wire[T any](v T) (T, error) {
	var out T
	b, err := json.Marshal(v)
	if err != nil {
		return out, err
	}
	err = json.Unmarshal(b, &out)
	return out, err
}

// ---------------------------------------------------------------- model (classification only)

type c30Model struct {
	base, cur map[string][]byte
	recreated map[string]bool // key of base deleted and re-created with another value since
	// the same relative to the state at the start of the current action
	// (ExecuteActions and the scoped re-execution use one view per action)
	actBase      map[string][]byte
	actRecreated map[string]bool
	lastWrite    map[string]int // action index of the last effective write/delete
	lastDel      map[string]bool
	act          int
	perms        map[string]uint8

	outputs        [][]byte
	failedAt       int
	failWhy        string
	scopeFail      bool
	readAfterWrite bool
	readAfterDel   bool
	f1             bool
	readEmpty      bool
}

var (
	errC30Scope = errors.New("scope")
	errC30Other = errors.New("other")
)

func c30Has(p, req uint8) bool { return req&^p == 0 }

func (m *c30Model) get(k []byte) ([]byte, bool, error) {
	if !c30Has(m.perms[string(k)], 1) {
		return nil, false, fmt.Errorf("%w: read without Read", errC30Scope)
	}
	if w, ok := m.lastWrite[string(k)]; ok && w < m.act {
		m.readAfterWrite = true
		if m.lastDel[string(k)] {
			m.readAfterDel = true
		}
	}
	v, ok := m.cur[string(k)]
	if ok && len(v) == 0 {
		m.readEmpty = true
	}
	return v, ok, nil
}

func (m *c30Model) put(k, v []byte) error {
	p := m.perms[string(k)]
	if !c30Has(p, 5) {
		return fmt.Errorf("%w: write without Write", errC30Scope)
	}
	if c30NumChunks(v) > int(c30MaxChunks(k)) {
		return fmt.Errorf("%w: value exceeds key chunks", errC30Other)
	}
	old, ok := m.cur[string(k)]
	if ok && bytes.Equal(old, v) {
		return nil
	}
	if !ok {
		if !c30Has(p, 3) {
			return fmt.Errorf("%w: create without Allocate", errC30Scope)
		}
		if bv, inBase := m.base[string(k)]; inBase && !bytes.Equal(bv, v) {
			m.recreated[string(k)] = true
		}
		if bv, inBase := m.actBase[string(k)]; inBase && !bytes.Equal(bv, v) {
			m.actRecreated[string(k)] = true
		}
	} else {
		if bv, inBase := m.base[string(k)]; inBase && bytes.Equal(bv, v) {
			delete(m.recreated, string(k))
		}
		if bv, inBase := m.actBase[string(k)]; inBase && bytes.Equal(bv, v) {
			delete(m.actRecreated, string(k))
		}
	}
	m.cur[string(k)] = append([]byte{}, v...)
	m.lastWrite[string(k)] = m.act
	m.lastDel[string(k)] = false
	return nil
}

func (m *c30Model) del(k []byte) error {
	if !c30Has(m.perms[string(k)], 5) {
		return fmt.Errorf("%w: delete without Write", errC30Scope)
	}
	if _, ok := m.cur[string(k)]; !ok {
		return nil
	}
	if m.recreated[string(k)] || m.actRecreated[string(k)] {
		m.f1 = true
		delete(m.recreated, string(k))
		delete(m.actRecreated, string(k))
	}
	delete(m.cur, string(k))
	m.lastWrite[string(k)] = m.act
	m.lastDel[string(k)] = true
	return nil
}

func (m *c30Model) balance(k []byte) (uint64, bool, error) {
	v, ok, err := m.get(k)
	if err != nil {
		return 0, false, err
	}
	if !ok {
		return 0, false, nil
	}
	if len(v) != 8 {
		return 0, false, fmt.Errorf("%w: malformed balance", errC30Other)
	}
	return binary.BigEndian.Uint64(v), true, nil
}

func (m *c30Model) transfer(actor int, x *c30Xfer) ([]byte, error) {
	if x.Value == 0 || len(x.Memo) > actions.MaxMemoSize {
		return nil, fmt.Errorf("%w: transfer of 0", errC30Other)
	}
	sk, rk := c30BalKey(actor), c30BalKey(x.To)
	bal, ok, err := m.balance(sk)
	if err != nil {
		return nil, err
	}
	if !ok || bal < x.Value {
		return nil, fmt.Errorf("%w: insufficient balance", errC30Other)
	}
	nb := bal - x.Value
	if nb == 0 {
		err = m.del(sk)
	} else {
		err = m.put(sk, c30U64(nb))
	}
	if err != nil {
		return nil, err
	}
	rb, _, err := m.balance(rk)
	if err != nil {
		return nil, err
	}
	if rb > math.MaxUint64-x.Value {
		return nil, fmt.Errorf("%w: receiver overflow", errC30Other)
	}
	if err := m.put(rk, c30U64(rb+x.Value)); err != nil {
		return nil, err
	}
	return (&actions.TransferResult{SenderBalance: nb, ReceiverBalance: rb + x.Value}).Bytes(), nil
}

// c30RunModel interprets the list sequentially over a map. With unrestricted
// set, declarations are ignored (what simulation does).
func c30RunModel(c c30Case, unrestricted bool) *c30Model {
	m := &c30Model{base: c.stateMap(), cur: map[string][]byte{}, recreated: map[string]bool{}, lastWrite: map[string]int{}, lastDel: map[string]bool{}, failedAt: -1}
	for k, v := range m.base {
		m.cur[k] = v
	}
	for i, a := range c.Actions {
		m.act = i
		m.actBase, m.actRecreated = map[string][]byte{}, map[string]bool{}
		for k, v := range m.cur {
			m.actBase[k] = v
		}
		var out []byte
		var err error
		switch {
		case a.X != nil:
			m.perms = map[string]uint8{string(c30BalKey(c.Actor)): 5}
			m.perms[string(c30BalKey(a.X.To))] = 7
			out, err = m.transfer(c.Actor, a.X)
		case unrestricted:
			m.perms = map[string]uint8{string(c30Undeclared): 7}
			for _, k := range a.P.Keys {
				m.perms[string(k.Key)] = 7
			}
		default:
			m.perms = map[string]uint8{}
			for _, k := range a.P.Keys {
				m.perms[string(k.Key)] |= k.Perm
			}
		}
		if a.P != nil {
			out = []byte{}
		ops:
			for _, o := range a.P.Ops {
				switch o.Kind {
				case fixture.OpGet:
					var v []byte
					var ok bool
					if v, ok, err = m.get(o.Key); err != nil {
						break ops
					}
					out = append(out, fixture.ReadRecord(v, ok)...)
				case fixture.OpPut:
					if err = m.put(o.Key, o.Val); err != nil {
						break ops
					}
				case fixture.OpDel:
					if err = m.del(o.Key); err != nil {
						break ops
					}
				default:
					err = fmt.Errorf("%w: fail op", errC30Other)
					break ops
				}
			}
		}
		if err != nil {
			m.failedAt = i
			m.scopeFail = errors.Is(err, errC30Scope)
			m.failWhy = err.Error()
			return m
		}
		m.outputs = append(m.outputs, out)
	}
	return m
}

// ---------------------------------------------------------------- run

func c30EqualOutputs(what string, got, want [][]byte) error {
	if len(got) != len(want) {
		return fmt.Errorf("%s: %d outputs, transaction produced %d", what, len(got), len(want))
	}
	for i := range got {
		if !bytes.Equal(got[i], want[i]) {
			return fmt.Errorf("%s: output of action %d is %x, in the transaction it is %x", what, i, got[i], want[i])
		}
	}
	return nil
}

func c30Run(c c30Case, st *vstat.Stats) error {
	ctx := context.Background()
	if len(c.Actions) == 0 || len(c.Actions) > int(c.MaxActions) || len(c.Balances) != c30NAddr || c.Actor < 0 || c.Actor >= c30NAddr {
		return fmt.Errorf("harness: malformed case")
	}
	const now = int64(1_700_000_000_000)
	rules := genesis.NewDefaultRules()
	rules.ChainID = fixture.ChainID
	rules.MaxActionsPerTx = c.MaxActions
	rules.MinUnitPrice = fees.Dimensions{}
	actor, sponsor := fixture.Addr(c.Actor), fixture.Addr(c.sponsor())

	model := c30RunModel(c, false)
	simModel := c30RunModel(c, true)

	// ---- classification
	nX, nP := 0, 0
	for _, a := range c.Actions {
		if a.X != nil {
			nX++
		} else {
			nP++
		}
	}
	labels := []string{}
	switch n := len(c.Actions); {
	case n == 1:
		labels = append(labels, "actions=1")
	case n <= 4:
		labels = append(labels, "actions=2..4")
	default:
		labels = append(labels, "actions>=5")
	}
	if len(c.Actions) == int(c.MaxActions) {
		labels = append(labels, "actions=limit")
	}
	switch {
	case nX > 0 && nP > 0:
		labels = append(labels, "mixed-transfer-and-prog")
	case nX > 0:
		labels = append(labels, "transfers-only")
	default:
		labels = append(labels, "prog-only")
	}
	if c.sponsor() == c.Actor {
		labels = append(labels, "sponsor=actor")
	}
	if model.readAfterWrite {
		labels = append(labels, "later-action-reads-earlier-write")
	}
	if model.readAfterDel {
		labels = append(labels, "later-action-reads-earlier-delete")
	}
	if model.readEmpty {
		labels = append(labels, "reads-empty-value")
	}
	f1 := model.f1 || simModel.f1
	if f1 {
		labels = append(labels, "delete-recreate-delete-of-state-key")
	}
	switch {
	case model.failedAt < 0:
		labels = append(labels, "model:all-succeed")
	case model.scopeFail:
		labels = append(labels, "model:permission-failure")
	default:
		labels = append(labels, "model:action-failure")
	}
	if model.failedAt >= 0 {
		labels = append(labels, "model-failure:"+model.failWhy)
	}
	if model.failedAt > 0 {
		labels = append(labels, "failure-after-successful-actions")
	}
	nt := len(c.Actions) >= 2 && model.readAfterWrite
	raw, _ := json.Marshal(c)
	finish := func(extra ...string) {
		labels = append(labels, extra...)
		st.Case(nt, string(raw), labels...)
		st.Sample(nt, map[string]any{"actor": c.Actor, "sponsor": c.sponsor(), "max_actions": c.MaxActions, "actions": c.Actions, "labels": labels})
	}
	if f1 && st.Known(c30FindingF1) {
		st.Exclude(c30FindingF1)
		finish("excluded")
		return nil
	}

	// ---- the state, served by a real merkledb
	db, err := fixture.NewDB(c.stateMap())
	if err != nil {
		return fmt.Errorf("harness: %v", err)
	}
	defer db.Close()
	vm := &c30VM{db: db, rules: rules}
	srv := jsonrpc.NewJSONRPCServer(vm)
	req, _ := http.NewRequestWithContext(ctx, http.MethodPost, "/", nil)

	// ---- reference: the transaction
	txActs := c.build(nil)
	res, union, err := c30RunTx(ctx, db, rules, txActs, actor, sponsor, now)
	if err != nil {
		return fmt.Errorf("harness: reference transaction: %v", err)
	}
	// ExecuteActions scopes every action to its own declaration, a transaction
	// to the union; chain.Action documents StateKeys as the full enumeration of
	// what Execute may touch, so lists are built such that no ProgAction profits
	// from a sibling's (or the sponsor's) declaration. Verify the construction.
	for i, a := range txActs {
		if c.Actions[i].P == nil {
			continue
		}
		for k, p := range a.StateKeys(actor, ids.Empty) {
			if union[k] != p {
				return fmt.Errorf("harness: action %d declares %x with %v but the transaction has %v", i, k, p, union[k])
			}
		}
	}
	if res.Success {
		labels = append(labels, "tx-success")
	} else {
		labels = append(labels, "tx-failed")
	}
	modelAgrees := (model.failedAt < 0) == res.Success && len(model.outputs) == len(res.Outputs)
	if modelAgrees {
		for i := range res.Outputs {
			if !bytes.Equal(res.Outputs[i], model.outputs[i]) {
				modelAgrees = false
			}
		}
	}
	if !modelAgrees {
		labels = append(labels, "harness-model-disagrees-with-tx")
	}

	encoded := make([][]byte, len(c.Actions))
	for i, a := range c.build(nil) {
		encoded[i] = a.Bytes()
	}

	// ---- D1: ExecuteActions
	eargs, err := c30Wire(jsonrpc.ExecuteActionArgs{Actor: actor, Actions: encoded})
	if err != nil {
		return fmt.Errorf("harness: wire: %v", err)
	}
	var ereply jsonrpc.ExecuteActionReply
	eerr := srv.ExecuteActions(req, &eargs, &ereply)
	if eerr == nil {
		if ereply, err = c30Wire(ereply); err != nil {
			return fmt.Errorf("ExecuteActions reply does not survive JSON: %v", err)
		}
	}

	// ---- D2/D3: SimulateActions
	sargs := jsonrpc.SimulatActionsArgs{Actor: actor}
	for _, b := range encoded {
		sargs.Actions = append(sargs.Actions, codec.Bytes(b))
	}
	if sargs, err = c30Wire(sargs); err != nil {
		return fmt.Errorf("harness: wire: %v", err)
	}
	var sreply jsonrpc.SimulateActionsReply
	serr := srv.SimulateActions(req, &sargs, &sreply)
	if serr == nil {
		if sreply, err = c30Wire(sreply); err != nil {
			return fmt.Errorf("SimulateActions reply does not survive JSON: %v", err)
		}
		labels = append(labels, "simulate-ok")
		if !res.Success {
			labels = append(labels, "simulate-ok-but-tx-fails-on-declared-permissions")
		}
	} else {
		labels = append(labels, "simulate-error")
	}
	finish()

	hint := ""
	if f1 {
		hint = " [the list deletes, re-creates and deletes a key of the state: tstate finding F1]"
	}

	if eerr != nil {
		return fmt.Errorf("ExecuteActions returned an RPC error for a list within the action limit: %v", eerr)
	}
	if err := c30EqualOutputs("ExecuteActions", ereply.Outputs, res.Outputs); err != nil {
		return fmt.Errorf("%w (tx success=%v error=%q; reply error=%q)%s", err, res.Success, res.Error, ereply.Error, hint)
	}
	if (ereply.Error != "") == res.Success {
		return fmt.Errorf("ExecuteActions error=%q but the transaction has success=%v (%q)%s", ereply.Error, res.Success, res.Error, hint)
	}

	if res.Success {
		if serr != nil {
			return fmt.Errorf("SimulateActions failed (%v) on a list that succeeds as a transaction%s", serr, hint)
		}
		got := make([][]byte, len(sreply.ActionResults))
		for i, r := range sreply.ActionResults {
			got[i] = r.Output
		}
		if err := c30EqualOutputs("SimulateActions", got, res.Outputs); err != nil {
			return fmt.Errorf("%w%s", err, hint)
		}
	}
	if serr != nil {
		return nil
	}
	if len(sreply.ActionResults) != len(c.Actions) {
		return fmt.Errorf("SimulateActions returned %d results for %d actions", len(sreply.ActionResults), len(c.Actions))
	}

	// ---- D3(a): each action in a view scoped to exactly what was reported for it
	ts := tstate.New(0)
	reported := make([]state.Keys, len(c.Actions))
	for i, a := range c.build(nil) {
		scope := sreply.ActionResults[i].StateKeys
		if scope == nil {
			scope = state.Keys{}
		}
		reported[i] = scope
		stor := map[string][]byte{}
		for k := range scope {
			v, err := db.GetValue(ctx, []byte(k))
			if err == nil {
				stor[k] = v
			} else if !errors.Is(err, database.ErrNotFound) {
				return fmt.Errorf("harness: %v", err)
			}
		}
		view := ts.NewView(scope, state.ImmutableStorage(stor), len(scope))
		out, err := a.Execute(ctx, rules, view, now, actor, chain.CreateActionID(ids.Empty, uint8(i)))
		if err != nil {
			return fmt.Errorf("action %d fails (%v) in a view scoped to the keys simulation reported for it %v%s", i, err, c30Keys(scope), hint)
		}
		if !bytes.Equal(out, sreply.ActionResults[i].Output) {
			return fmt.Errorf("action %d scoped to its reported keys outputs %x, simulation reported %x%s", i, out, []byte(sreply.ActionResults[i].Output), hint)
		}
		view.Commit()
	}

	// ---- D3(b): a transaction whose ProgActions declare exactly the reported keys
	res2, _, err := c30RunTx(ctx, db, rules, c.build(reported), actor, sponsor, now)
	if err != nil {
		return fmt.Errorf("transaction declaring the reported keys: %v%s", err, hint)
	}
	if !res2.Success {
		return fmt.Errorf("transaction declaring the reported keys fails: %s (after %d outputs)%s", res2.Error, len(res2.Outputs), hint)
	}
	want := make([][]byte, len(sreply.ActionResults))
	for i, r := range sreply.ActionResults {
		want[i] = r.Output
	}
	if err := c30EqualOutputs("transaction declaring the reported keys vs simulation", res2.Outputs, want); err != nil {
		return fmt.Errorf("%w%s", err, hint)
	}
	return nil
}

func c30Keys(k state.Keys) string {
	ks := make([]string, 0, len(k))
	for key, p := range k {
		ks = append(ks, fmt.Sprintf("%x:%s", key, p))
	}
	sort.Strings(ks)
	return fmt.Sprint(ks)
}

func TestC30(t *testing.T) {
	st := vstat.New(t, "C30", "action lists of 1..MaxActionsPerTx (1,2,4,8,16) MorpheusVM Transfers and ProgActions (get/put/del/fail programs over 7 chunk-suffixed keys and the 4 balance keys, permissions incl. insufficient ones, an undeclared key, oversize values, junk balances) by any of 4 actors over a generated state (absent/empty/full values, balances 0..2^64-1) held in a real merkledb behind a harness api.VM; JSONRPCServer.ExecuteActions / SimulateActions called as Go methods with args and replies round-tripped through JSON; compared with Transaction.Execute (StubAuth, zero unit prices, sponsor = actor or a dedicated account) on the same state, then each action re-executed in views scoped to the reported keys and a transaction re-declaring exactly the reported keys; non-trivial = >=2 actions where a later action reads a key an earlier action effectively wrote or deleted; distinct by full case")
	st.Assumption("chain.Action documents StateKeys as the full enumeration of what Execute may touch: lists are built so that no ProgAction relies on a key or permission declared only by a sibling action or the sponsor (all ProgActions of a list declare a key under one permission); under-declaring actions are kept and must fail alike in ExecuteActions and in the transaction")
	st.Assumption("SimulateActions ignores declarations by design: agreement with the declared transaction is demanded when that transaction succeeds; otherwise agreement is demanded with a transaction declaring the reported keys")
	st.Assumption("the reference transaction runs with zero unit prices and a sponsor whose balance entry the fee charge of 0 leaves unchanged")
	rapid.Check(t, func(rt *rapid.T) {
		c := c30Gen(rt)
		vstat.Run(rt, st, c, func() error { return c30Run(c, st) })
	})
}

func TestC30Replay(t *testing.T) {
	vstat.Replay(t, "C30", func(raw []byte) error {
		var c c30Case
		if err := json.Unmarshal(raw, &c); err != nil {
			return err
		}
		return c30Run(c, vstat.New(nil, "C30", ""))
	})
}
