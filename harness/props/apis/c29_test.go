package apis

import (
	"bytes"
	"encoding/base64"
	"encoding/json"
	"fmt"
	"math"
	"reflect"
	"strings"
	"testing"
	"unicode/utf8"

	"pgregory.net/rapid"

	"github.com/ava-labs/hypersdk/abi"
	"github.com/ava-labs/hypersdk/abi/dynamic"
	"github.com/ava-labs/hypersdk/chain/chaintest"
	"github.com/ava-labs/hypersdk/codec"
	"github.com/ava-labs/hypersdk/examples/morpheusvm/actions"
	"github.com/ava-labs/hypersdk/state"
	"github.com/ava-labs/hypersdk/verifharness/vstat"

	mvm "github.com/ava-labs/hypersdk/examples/morpheusvm/vm"
)

// C29: for every registered action / output type and every value of it,
//   dynamic.Marshal(abi, name, json(v))     == v.Bytes()        (actions)
//   json(dynamic.UnmarshalAction(abi, v.Bytes())) == json(v)    (actions)
//   json(dynamic.UnmarshalOutput(abi, v.Bytes())) == json(v)    (outputs)
// The registered types of the pinned tree are MorpheusVM's Transfer /
// TransferResult and the framework test kit's TestAction / TestOutput; the ABI
// of each registry is built by abi.NewABI from GetRegisteredTypes(), exactly as
// vm.New does.

// Finding: abi.NewABI describes a field whose Go type is a named non-struct
// type (state.Permissions in TestAction) by the bare type name, which the ABI
// neither defines nor lists as primitive, and whose JSON form (MarshalText)
// the ABI cannot express. No TestAction value can be encoded or decoded
// through its own ABI. While that finding is listed as known, the TestAction
// cases run against the real ABI with that one field type rewritten to
// "[]uint8" and the field's JSON rewritten to the base64 form, so that every
// other field of TestAction stays under test.
const c29FindingNamedScalar = "C29-abi-named-scalar-field"

const (
	c29KindTransfer = iota
	c29KindTransferResult
	c29KindTestAction
	c29KindTestOutput
)

type c29Transfer struct {
	To    []byte // 33 bytes
	Value uint64
	Memo  []byte
}

type c29Result struct{ Sender, Receiver uint64 }

type c29TestAction struct {
	Compute     uint64
	Keys        [][]byte // strings, kept as bytes so that replay files are lossless
	Perms       []byte
	Reads       [][]byte
	WriteKeys   [][]byte
	WriteValues [][]byte
	ExecuteErr  bool
	Nonce       uint64
	Start, End  int64
}

type c29Case struct {
	Kind int
	T    *c29Transfer   `json:",omitempty"`
	R    *c29Result     `json:",omitempty"`
	A    *c29TestAction `json:",omitempty"`
}

// ---------------------------------------------------------------- generators

func c29U64() *rapid.Generator[uint64] {
	return rapid.OneOf(
		rapid.SampledFrom([]uint64{0, 1, 7}),
		rapid.SampledFrom([]uint64{0, 1, 255, 256, 65535, 65536, 1<<32 - 1, 1 << 32, 1<<53 - 1, 1 << 53, 1<<53 + 1,
			1<<63 - 1, 1 << 63, 1<<63 + 1, math.MaxUint64 - 1, math.MaxUint64}),
		rapid.Uint64(),
		rapid.Uint64Range(1<<53, math.MaxUint64),
	)
}

func c29I64() *rapid.Generator[int64] {
	return rapid.OneOf(
		rapid.SampledFrom([]int64{0, 1, 7, -1}),
		rapid.SampledFrom([]int64{0, 1, -1, 127, -128, 1 << 31, -(1 << 31) - 1, 1<<53 + 1, -(1 << 53) - 1,
			math.MaxInt64, math.MinInt64, math.MaxInt64 - 1, math.MinInt64 + 1}),
		rapid.Int64(),
	)
}

func c29Bytes(lens []int) *rapid.Generator[[]byte] {
	return rapid.Custom(func(rt *rapid.T) []byte {
		n := rapid.SampledFrom(lens).Draw(rt, "len")
		switch rapid.IntRange(0, 3).Draw(rt, "fill") {
		case 0:
			return bytes.Repeat([]byte{0}, n)
		case 1:
			return bytes.Repeat([]byte{0xff}, n)
		default:
			return rapid.SliceOfN(rapid.Byte(), n, n).Draw(rt, "b")
		}
	})
}

// c29Nested: 0..4 entries mostly, with a tail of up to 40.
func c29Nested(lens []int) *rapid.Generator[[][]byte] {
	return rapid.Custom(func(rt *rapid.T) [][]byte {
		if c30Rare(rt, "run", 4) {
			return rapid.SliceOfN(c29Bytes(lens), 5, 40).Draw(rt, "entries")
		}
		return rapid.SliceOfN(c29Bytes(lens), 0, 4).Draw(rt, "entries")
	})
}

// c29EmptyRun is a long run (50..200) of empty (rarely one-byte) inner
// slices: 4 bytes each in the codec, 3 characters each in JSON, which is the
// only way a TestAction's encoding gets longer than its JSON document.
func c29EmptyRun() *rapid.Generator[[][]byte] {
	return rapid.Custom(func(rt *rapid.T) [][]byte {
		n := 50 + rapid.IntRange(0, 150).Draw(rt, "runlen")
		out := make([][]byte, n)
		ones := rapid.SliceOfN(rapid.IntRange(0, n-1), 0, 3).Draw(rt, "nonempty")
		for i := range out {
			out[i] = []byte{}
		}
		for _, i := range ones {
			out[i] = []byte{7}
		}
		return out
	})
}

var c29Runes = []rune{'a', 'Z', '0', ' ', '"', '\\', '/', '<', '>', '&', '\'', 0, 1, '\n', '\t', 0x7f, 0x80, 0xe9, 0x3b1,
	0x2028, 0x2029, 0xfffd, 0xffff, 0x1f600, 0x10ffff}

// c29String returns a string as bytes: mostly valid UTF-8 (JSON-hostile runes
// included), sometimes raw bytes (then json.Marshal is lossy).
func c29String() *rapid.Generator[[]byte] {
	return rapid.Custom(func(rt *rapid.T) []byte {
		switch rapid.IntRange(0, 19).Draw(rt, "strkind") {
		case 0:
			return rapid.SliceOfN(rapid.Byte(), 1, 6).Draw(rt, "raw")
		case 1:
			return []byte(strings.Repeat("k", rapid.SampledFrom([]int{255, 256, 1000, 65535}).Draw(rt, "long")))
		default:
			rs := rapid.SliceOfN(rapid.SampledFrom(c29Runes), 0, 8).Draw(rt, "runes")
			return []byte(string(rs))
		}
	})
}

func c29Gen(rt *rapid.T) c29Case {
	kind := rapid.SampledFrom([]int{c29KindTransfer, c29KindTransfer, c29KindTransfer, c29KindTransferResult, c29KindTransferResult,
		c29KindTestAction, c29KindTestAction, c29KindTestAction, c29KindTestAction, c29KindTestAction, c29KindTestAction, c29KindTestOutput}).Draw(rt, "kind")
	c := c29Case{Kind: kind}
	switch kind {
	case c29KindTransfer:
		c.T = &c29Transfer{
			To:    c29Bytes([]int{codec.AddressLen}).Draw(rt, "to"),
			Value: c29U64().Draw(rt, "value"),
			Memo:  c29Bytes([]int{0, 0, 1, 2, 3, 4, 31, 32, 33, 255, actions.MaxMemoSize}).Draw(rt, "memo"),
		}
	case c29KindTransferResult:
		c.R = &c29Result{Sender: c29U64().Draw(rt, "sender"), Receiver: c29U64().Draw(rt, "receiver")}
	case c29KindTestAction:
		small := []int{0, 1, 2, 3, 33, 64, 300}
		c.A = &c29TestAction{
			Compute:     c29U64().Draw(rt, "compute"),
			Keys:        rapid.SliceOfN(c29String(), 0, 4).Draw(rt, "keys"),
			Perms:       rapid.SliceOfN(rapid.OneOf(rapid.ByteRange(0, 7), rapid.Byte()), 0, 5).Draw(rt, "perms"),
			Reads:       c29Nested(small).Draw(rt, "reads"),
			WriteKeys:   c29Nested(small).Draw(rt, "wkeys"),
			WriteValues: c29Nested([]int{0, 1, 63, 64, 65, 1000}).Draw(rt, "wvals"),
			ExecuteErr:  rapid.Bool().Draw(rt, "executeErr"),
			Nonce:       c29U64().Draw(rt, "nonce"),
			Start:       c29I64().Draw(rt, "start"),
			End:         c29I64().Draw(rt, "end"),
		}
		if c30Rare(rt, "bulkEmpty", 3) {
			c.A.Reads = c29EmptyRun().Draw(rt, "readsRun")
			c.A.WriteKeys = c29EmptyRun().Draw(rt, "wkeysRun")
			c.A.WriteValues = c29EmptyRun().Draw(rt, "wvalsRun")
			c.A.Keys = nil
		}
	}
	return c
}

// ---------------------------------------------------------------- ABIs

// c29Served passes the ABI through its JSON form, which is how clients (the
// CLI, other-language SDKs) obtain it from the getABI endpoint.
func c29Served(a abi.ABI, err error) (abi.ABI, error) {
	if err != nil {
		return a, err
	}
	doc, err := json.Marshal(a)
	if err != nil {
		return a, err
	}
	var out abi.ABI
	err = json.Unmarshal(doc, &out)
	return out, err
}

func c29MorpheusABI() (abi.ABI, error) {
	return c29Served(abi.NewABI(mvm.ActionParser.GetRegisteredTypes(), mvm.OutputParser.GetRegisteredTypes()))
}

func c29TestKitABI() (abi.ABI, error) {
	p := chaintest.NewTestParser()
	// the test kit registers TestOutput in a local output registry it does not return
	return c29Served(abi.NewABI(p.ActionRegistry.GetRegisteredTypes(), []codec.Typed{&chaintest.TestOutput{}}))
}

const c29PermsField = "specifiedStateKeyPermissions"

// c29PatchABI rewrites the one field type the known finding is about.
func c29PatchABI(a abi.ABI) (abi.ABI, bool) {
	out := abi.ABI{Actions: a.Actions, Outputs: a.Outputs}
	patched := false
	for _, t := range a.Types {
		nt := abi.Type{Name: t.Name}
		for _, f := range t.Fields {
			if t.Name == "TestAction" && f.Name == c29PermsField && f.Type == "[]Permissions" {
				f.Type = "[]uint8"
				patched = true
			}
			nt.Fields = append(nt.Fields, f)
		}
		out.Types = append(out.Types, nt)
	}
	return out, patched
}

// c29PatchJSON renders the permissions field the way a plain []uint8 field is
// rendered (base64 string, or null for a nil slice).
func c29PatchJSON(doc []byte, perms []state.Permissions) ([]byte, error) {
	var m map[string]json.RawMessage
	if err := json.Unmarshal(doc, &m); err != nil {
		return nil, err
	}
	if _, ok := m[c29PermsField]; !ok {
		return nil, fmt.Errorf("native JSON has no %s field", c29PermsField)
	}
	if perms == nil {
		m[c29PermsField] = json.RawMessage("null")
	} else {
		raw := make([]byte, len(perms))
		for i, p := range perms {
			raw[i] = byte(p)
		}
		m[c29PermsField] = json.RawMessage(`"` + base64.StdEncoding.EncodeToString(raw) + `"`)
	}
	return json.Marshal(m)
}

// ---------------------------------------------------------------- oracle

func c29Tree(doc string) (any, error) {
	d := json.NewDecoder(strings.NewReader(doc))
	d.UseNumber()
	var v any
	if err := d.Decode(&v); err != nil {
		return nil, err
	}
	if d.More() {
		return nil, fmt.Errorf("trailing JSON")
	}
	return v, nil
}

func c29JSONEqual(got, want string) error {
	gt, err := c29Tree(got)
	if err != nil {
		return fmt.Errorf("ABI JSON does not parse: %v (%s)", err, c29Short(got))
	}
	wt, err := c29Tree(want)
	if err != nil {
		return fmt.Errorf("native JSON does not parse: %v", err)
	}
	if !reflect.DeepEqual(gt, wt) {
		return fmt.Errorf("JSON differs: through ABI %s, native %s", c29Short(got), c29Short(want))
	}
	return nil
}

func c29Short(s string) string {
	if len(s) > 600 {
		return s[:600] + "..."
	}
	return s
}

func c29CopyNested(in [][]byte) [][]byte {
	if in == nil {
		return nil
	}
	out := make([][]byte, len(in))
	for i, b := range in {
		out[i] = append([]byte{}, b...)
	}
	return out
}

func c29Run(c c29Case, st *vstat.Stats) error {
	labels := []string{}
	nt := false
	big := func(vs ...uint64) {
		for _, v := range vs {
			if v >= 1<<53 {
				nt = true
				labels = append(labels, "number>=2^53")
				return
			}
		}
	}
	nested := func(vs ...[][]byte) {
		for _, v := range vs {
			if len(v) > 0 {
				nt = true
				labels = append(labels, "nested-slice-nonempty")
				return
			}
		}
	}
	canon, _ := json.Marshal(c)
	finish := func(sample map[string]any) {
		st.Case(nt, string(canon), labels...)
		sample["labels"] = labels
		st.Sample(nt, sample)
	}

	switch c.Kind {
	case c29KindTransfer:
		labels = append(labels, "type:Transfer")
		a, err := c29MorpheusABI()
		if err != nil {
			return fmt.Errorf("abi.NewABI(morpheus registries): %v", err)
		}
		v0 := &actions.Transfer{Value: c.T.Value, Memo: append([]byte{}, c.T.Memo...)}
		copy(v0.To[:], c.T.To)
		big(c.T.Value)
		if len(c.T.Memo) == 0 {
			labels = append(labels, "memo-empty")
		}
		// one native encode/decode: the codec's canonical value
		pa, err := mvm.ActionParser.Unmarshal(v0.Bytes())
		if err != nil {
			return fmt.Errorf("harness: native decode of a generated Transfer failed: %v", err)
		}
		v := pa.(*actions.Transfer)
		native := v.Bytes()
		doc, err := json.Marshal(v)
		if err != nil {
			return fmt.Errorf("harness: json of Transfer: %v", err)
		}
		if len(native) > len(doc) {
			labels = append(labels, "binary-longer-than-json")
		}
		finish(map[string]any{"type": "Transfer", "json": c29Short(string(doc))})
		return c29CheckAction(a, "Transfer", string(doc), native, false)

	case c29KindTransferResult:
		labels = append(labels, "type:TransferResult")
		a, err := c29MorpheusABI()
		if err != nil {
			return fmt.Errorf("abi.NewABI(morpheus registries): %v", err)
		}
		v0 := &actions.TransferResult{SenderBalance: c.R.Sender, ReceiverBalance: c.R.Receiver}
		big(c.R.Sender, c.R.Receiver)
		pv, err := mvm.OutputParser.Unmarshal(v0.Bytes())
		if err != nil {
			return fmt.Errorf("harness: native decode of a generated TransferResult failed: %v", err)
		}
		v := pv.(*actions.TransferResult)
		doc, _ := json.Marshal(v)
		finish(map[string]any{"type": "TransferResult", "json": string(doc)})
		got, err := dynamic.UnmarshalOutput(a, v.Bytes())
		if err != nil {
			return fmt.Errorf("UnmarshalOutput(TransferResult %x): %v", v.Bytes(), err)
		}
		return c29JSONEqual(got, string(doc))

	case c29KindTestOutput:
		labels = append(labels, "type:TestOutput")
		a, err := c29TestKitABI()
		if err != nil {
			return fmt.Errorf("abi.NewABI(test kit registries): %v", err)
		}
		enc := []byte{(&chaintest.TestOutput{}).GetTypeID()}
		pv, err := chaintest.UnmarshalTestOutput(enc)
		if err != nil {
			return fmt.Errorf("harness: native decode of TestOutput: %v", err)
		}
		doc, _ := json.Marshal(pv)
		finish(map[string]any{"type": "TestOutput", "json": string(doc)})
		got, err := dynamic.UnmarshalOutput(a, enc)
		if err != nil {
			return fmt.Errorf("UnmarshalOutput(TestOutput): %v", err)
		}
		return c29JSONEqual(got, string(doc))

	case c29KindTestAction:
		labels = append(labels, "type:TestAction")
		a, err := c29TestKitABI()
		if err != nil {
			return fmt.Errorf("abi.NewABI(test kit registries): %v", err)
		}
		s := c.A
		v0 := &chaintest.TestAction{
			NumComputeUnits: s.Compute,
			ReadKeys:        c29CopyNested(s.Reads),
			WriteKeys:       c29CopyNested(s.WriteKeys),
			WriteValues:     c29CopyNested(s.WriteValues),
			ExecuteErr:      s.ExecuteErr,
			Nonce:           s.Nonce, Start: s.Start, End: s.End,
		}
		lossy := false
		for _, k := range s.Keys {
			v0.SpecifiedStateKeys = append(v0.SpecifiedStateKeys, string(k))
			if !utf8.Valid(k) {
				lossy = true
			}
		}
		for _, p := range s.Perms {
			v0.SpecifiedStateKeyPermissions = append(v0.SpecifiedStateKeyPermissions, state.Permissions(p))
		}
		big(s.Compute, s.Nonce)
		if s.Start < 0 || s.End < 0 {
			labels = append(labels, "int64-negative")
		}
		if s.Start == math.MinInt64 || s.End == math.MinInt64 || s.Start == math.MaxInt64 || s.End == math.MaxInt64 {
			labels = append(labels, "int64-extreme")
		}
		nested(s.Reads, s.WriteKeys, s.WriteValues)
		if len(s.Keys) > 0 {
			labels = append(labels, "strings-nonempty")
		}
		if s.ExecuteErr {
			labels = append(labels, "bool-true")
		}
		pa, err := chaintest.NewTestParser().ActionRegistry.Unmarshal(v0.Bytes())
		if err != nil {
			return fmt.Errorf("harness: native decode of a generated TestAction failed: %v", err)
		}
		v := pa.(*chaintest.TestAction)
		native := v.Bytes()
		doc, err := json.Marshal(v)
		if err != nil {
			return fmt.Errorf("harness: json of TestAction: %v", err)
		}
		if lossy {
			// the value's JSON does not denote the value (invalid UTF-8 in a
			// string is replaced by U+FFFD): the encode direction has no
			// defined expectation, the decode direction still has.
			labels = append(labels, "json-lossy-string")
			st.Assumption("values whose native JSON is lossy (invalid UTF-8 inside a string field) are only checked in the decode direction")
		}
		if st.Known(c29FindingNamedScalar) {
			patchedABI, patched := c29PatchABI(a)
			if patched {
				st.Exclude(c29FindingNamedScalar)
				a = patchedABI
				if doc, err = c29PatchJSON(doc, v.SpecifiedStateKeyPermissions); err != nil {
					return fmt.Errorf("harness: %v", err)
				}
			}
		}
		if len(native) > len(doc) {
			labels = append(labels, "binary-longer-than-json")
		}
		finish(map[string]any{"type": "TestAction", "json": c29Short(string(doc))})
		return c29CheckAction(a, "TestAction", string(doc), native, lossy)
	}
	return fmt.Errorf("harness: unknown kind %d", c.Kind)
}

func c29CheckAction(a abi.ABI, name, doc string, native []byte, lossy bool) error {
	if !lossy {
		enc, err := dynamic.Marshal(a, name, doc)
		if err != nil {
			return fmt.Errorf("dynamic.Marshal(%s, %s): %v", name, c29Short(doc), err)
		}
		if !bytes.Equal(enc, native) {
			return fmt.Errorf("dynamic.Marshal(%s, %s) = %x, native encoding %x", name, c29Short(doc), enc, native)
		}
	}
	got, err := dynamic.UnmarshalAction(a, native)
	if err != nil {
		return fmt.Errorf("dynamic.UnmarshalAction(%s %x): %v", name, native, err)
	}
	return c29JSONEqual(got, doc)
}

func TestC29(t *testing.T) {
	st := vstat.New(t, "C29", "values of every registered type (MorpheusVM Transfer / TransferResult, test kit TestAction / TestOutput): 64-bit numbers biased to 0, 2^8k, 2^53±1, 2^63, 2^64-1 and int64 extremes, addresses, memos 0..256 bytes, strings with JSON-hostile and multi-byte runes (sometimes invalid UTF-8), nested byte slices 0..4 (tail to 40) x 0..1000 bytes, runs of 50..200 empty inner slices (binary longer than JSON), small numbers 0/1/7, permission bytes; each value normalised by one native encode/decode; ABI from abi.NewABI over the registry; oracle: dynamic.Marshal(json(v)) == v.Bytes() and dynamic.UnmarshalAction/UnmarshalOutput(v.Bytes()) equals json(v) as decoded trees (UseNumber); non-trivial = a non-empty nested slice or a number >= 2^53; distinct by full case")
	rapid.Check(t, func(rt *rapid.T) {
		c := c29Gen(rt)
		vstat.Run(rt, st, c, func() error { return c29Run(c, st) })
	})
}

func TestC29Replay(t *testing.T) {
	vstat.Replay(t, "C29", func(raw []byte) error {
		// replay files of the second stage (TestC29Shapes) carry a Shape field
		var probe struct{ Shape *string }
		if err := json.Unmarshal(raw, &probe); err == nil && probe.Shape != nil {
			var sc c29ShapeCase
			if err := json.Unmarshal(raw, &sc); err != nil {
				return err
			}
			return c29ShapeRun(sc, vstat.New(nil, "C29", ""))
		}
		var c c29Case
		if err := json.Unmarshal(raw, &c); err != nil {
			return err
		}
		return c29Run(c, vstat.New(nil, "C29", ""))
	})
}
