package apis

import (
	"context"
	"encoding/json"
	"errors"
	"fmt"
	"reflect"
	"strings"
	"testing"
	"unicode/utf8"

	"github.com/ava-labs/avalanchego/ids"
	"github.com/ava-labs/avalanchego/utils/wrappers"
	"pgregory.net/rapid"

	"github.com/ava-labs/hypersdk/abi"
	"github.com/ava-labs/hypersdk/abi/dynamic"
	"github.com/ava-labs/hypersdk/chain"
	"github.com/ava-labs/hypersdk/codec"
	"github.com/ava-labs/hypersdk/consts"
	"github.com/ava-labs/hypersdk/state"
	"github.com/ava-labs/hypersdk/verifharness/vstat"
)

// C29, second stage: the same oracle as TestC29 over a family of action and
// output types a VM author can register (serialize tags, GetTypeID, Bytes /
// unmarshaller over codec.LinearCodec exactly like MorpheusVM's Transfer),
// chosen to cover the ABI type grammar: every integer width, bool, string,
// Address, byte slices, fixed arrays, slices of fixed arrays, fixed arrays of
// slices, multi-dimensional arrays of different lengths, slices of slices,
// mixed dimensions, nested structs, slices / arrays of structs, an embedded
// struct, fields without json tags. The four shipped registered types have
// none of the multi-dimensional or struct-valued shapes.

// ---------------------------------------------------------------- the type family

// shapeBase supplies the chain.Action methods that do not matter here. It is
// embedded without a serialize tag, so the codec, the ABI and encoding/json
// all ignore it.
type shapeBase struct{}

func (shapeBase) ValidRange(chain.Rules) (int64, int64)      { return -1, -1 }
func (shapeBase) ComputeUnits(chain.Rules) uint64            { return 1 }
func (shapeBase) StateKeys(codec.Address, ids.ID) state.Keys { return state.Keys{} }
func (shapeBase) Execute(context.Context, chain.Rules, state.Mutable, int64, codec.Address, ids.ID) ([]byte, error) {
	return nil, nil
}

type ShapeLeaf struct {
	N   uint16 `serialize:"true" json:"n"`
	Tag string `serialize:"true" json:"tag"`
}

type ShapeInner struct {
	ID   uint32    `serialize:"true" json:"id"`
	Data []byte    `serialize:"true" json:"data"`
	Leaf ShapeLeaf `serialize:"true" json:"leaf"`
	Pos  [2]int16  `serialize:"true" json:"pos"`
}

type ShapeCell struct {
	Sub [2]ShapeLeaf `serialize:"true" json:"sub"`
	K   uint8        `serialize:"true" json:"k"`
}

type ShapeMid struct {
	Leaf   ShapeLeaf    `serialize:"true" json:"leaf"`
	Leaves [2]ShapeLeaf `serialize:"true" json:"leaves"`
	Cell   ShapeCell    `serialize:"true" json:"cell"`
}

type ShapeLevel uint8

type ShapeScalars struct {
	shapeBase
	I8  int8          `serialize:"true" json:"i8"`
	I16 int16         `serialize:"true" json:"i16"`
	I32 int32         `serialize:"true" json:"i32"`
	I64 int64         `serialize:"true" json:"i64"`
	U8  uint8         `serialize:"true" json:"u8"`
	U16 uint16        `serialize:"true" json:"u16"`
	U32 uint32        `serialize:"true" json:"u32"`
	U64 uint64        `serialize:"true" json:"u64"`
	B   bool          `serialize:"true" json:"flag"`
	S   string        `serialize:"true" json:"text"`
	A   codec.Address `serialize:"true" json:"addr"`
}

type ShapeByteForms struct {
	shapeBase
	Raw  []byte    `serialize:"true" json:"raw"`
	Two  [2]uint8  `serialize:"true" json:"two"`
	Hash [32]uint8 `serialize:"true" json:"hash"`
	One  [1]uint8  `serialize:"true" json:"one"`
}

type ShapeSlices struct {
	shapeBase
	I8s   []int8          `serialize:"true" json:"i8s"`
	I16s  []int16         `serialize:"true" json:"i16s"`
	I32s  []int32         `serialize:"true" json:"i32s"`
	I64s  []int64         `serialize:"true" json:"i64s"`
	U16s  []uint16        `serialize:"true" json:"u16s"`
	U32s  []uint32        `serialize:"true" json:"u32s"`
	U64s  []uint64        `serialize:"true" json:"u64s"`
	Bs    []bool          `serialize:"true" json:"bools"`
	Ss    []string        `serialize:"true" json:"strings"`
	Addrs []codec.Address `serialize:"true" json:"addrs"`
}

type ShapeArrays struct {
	shapeBase
	U16x3  [3]uint16        `serialize:"true" json:"u16x3"`
	I64x2  [2]int64         `serialize:"true" json:"i64x2"`
	Sx2    [2]string        `serialize:"true" json:"sx2"`
	Bx3    [3]bool          `serialize:"true" json:"bx3"`
	Addrx2 [2]codec.Address `serialize:"true" json:"addrx2"`
	U64x1  [1]uint64        `serialize:"true" json:"u64x1"`
}

type ShapeSliceOfArrays struct {
	shapeBase
	Hashes [][32]uint8 `serialize:"true" json:"hashes"`
	Pairs  [][2]uint16 `serialize:"true" json:"pairs"`
	Quads  [][4]uint8  `serialize:"true" json:"quads"`
	Names  [][2]string `serialize:"true" json:"names"`
}

type ShapeArrayOfSlices struct {
	shapeBase
	Blobs [2][]uint8  `serialize:"true" json:"blobs"`
	Nums  [3][]uint32 `serialize:"true" json:"nums"`
	Texts [2][]string `serialize:"true" json:"texts"`
}

type ShapeGrids struct {
	shapeBase
	G23  [2][3]uint8    `serialize:"true" json:"g23"`
	G32  [3][2]uint8    `serialize:"true" json:"g32"`
	W23  [2][3]uint16   `serialize:"true" json:"w23"`
	I41  [4][1]int32    `serialize:"true" json:"i41"`
	G234 [2][3][4]uint8 `serialize:"true" json:"g234"`
}

type ShapeSliceOfSlices struct {
	shapeBase
	Blobs [][]uint8   `serialize:"true" json:"blobs"`
	Nums  [][]uint16  `serialize:"true" json:"nums"`
	Texts [][]string  `serialize:"true" json:"texts"`
	Deep  [][][]uint8 `serialize:"true" json:"deep"`
}

type ShapeMixedDims struct {
	shapeBase
	A [][2][]uint8   `serialize:"true" json:"a"`
	B [2][][3]uint16 `serialize:"true" json:"b"`
	C [][][2]uint8   `serialize:"true" json:"c"`
	D [3][][]uint8   `serialize:"true" json:"d"`
}

type ShapeNested struct {
	shapeBase
	Head ShapeInner `serialize:"true" json:"head"`
	Mid  ShapeMid   `serialize:"true" json:"mid"`
	Tail uint8      `serialize:"true" json:"tail"`
}

type ShapeStructSlices struct {
	shapeBase
	Items  []ShapeInner  `serialize:"true" json:"items"`
	Leaves []ShapeLeaf   `serialize:"true" json:"leaves"`
	Groups [][]ShapeLeaf `serialize:"true" json:"groups"`
}

type ShapeStructArrays struct {
	shapeBase
	Cells [2]ShapeCell    `serialize:"true" json:"cells"`
	Rows  [][2]ShapeLeaf  `serialize:"true" json:"rows"`
	Cols  [2][]ShapeLeaf  `serialize:"true" json:"cols"`
	Grid  [2][3]ShapeLeaf `serialize:"true" json:"grid"`
}

type ShapeEmbedded struct {
	shapeBase
	ShapeLeaf `serialize:"true"`
	Extra     uint32 `serialize:"true" json:"extra"`
}

type ShapeNoTags struct {
	shapeBase
	Field1     uint16      `serialize:"true"`
	Field2     []uint32    `serialize:"true"`
	FieldThree [2][2]uint8 `serialize:"true"`
}

// ShapeNamedFields has fields of named non-struct types: the class of the
// known finding C29-abi-named-scalar-field.
type ShapeNamedFields struct {
	shapeBase
	Hex    codec.Bytes  `serialize:"true" json:"hex"`
	Level  ShapeLevel   `serialize:"true" json:"level"`
	Levels []ShapeLevel `serialize:"true" json:"levels"`
}

type ShapeOutScalars struct {
	U64 uint64        `serialize:"true" json:"u64"`
	I64 int64         `serialize:"true" json:"i64"`
	Ok  bool          `serialize:"true" json:"ok"`
	Msg string        `serialize:"true" json:"msg"`
	Who codec.Address `serialize:"true" json:"who"`
}

type ShapeOutGrids struct {
	Hashes [][32]uint8 `serialize:"true" json:"hashes"`
	Grid   [2][3]uint8 `serialize:"true" json:"grid"`
	Leaves []ShapeLeaf `serialize:"true" json:"leaves"`
	Cell   ShapeCell   `serialize:"true" json:"cell"`
}

func (*ShapeScalars) GetTypeID() uint8       { return 0 }
func (*ShapeByteForms) GetTypeID() uint8     { return 1 }
func (*ShapeSlices) GetTypeID() uint8        { return 2 }
func (*ShapeArrays) GetTypeID() uint8        { return 3 }
func (*ShapeSliceOfArrays) GetTypeID() uint8 { return 4 }
func (*ShapeArrayOfSlices) GetTypeID() uint8 { return 5 }
func (*ShapeGrids) GetTypeID() uint8         { return 6 }
func (*ShapeSliceOfSlices) GetTypeID() uint8 { return 7 }
func (*ShapeMixedDims) GetTypeID() uint8     { return 8 }
func (*ShapeNested) GetTypeID() uint8        { return 9 }
func (*ShapeStructSlices) GetTypeID() uint8  { return 10 }
func (*ShapeStructArrays) GetTypeID() uint8  { return 11 }
func (*ShapeEmbedded) GetTypeID() uint8      { return 12 }
func (*ShapeNoTags) GetTypeID() uint8        { return 200 }
func (*ShapeNamedFields) GetTypeID() uint8   { return 255 }
func (*ShapeOutScalars) GetTypeID() uint8    { return 0 }
func (*ShapeOutGrids) GetTypeID() uint8      { return 9 }

func shapeBytes(id uint8, v any) []byte {
	p := &wrappers.Packer{Bytes: make([]byte, 0, 256), MaxSize: consts.NetworkSizeLimit}
	p.PackByte(id)
	if err := codec.LinearCodec.MarshalInto(v, p); err != nil {
		panic(err)
	}
	return p.Bytes
}

func (t *ShapeScalars) Bytes() []byte       { return shapeBytes(t.GetTypeID(), t) }
func (t *ShapeByteForms) Bytes() []byte     { return shapeBytes(t.GetTypeID(), t) }
func (t *ShapeSlices) Bytes() []byte        { return shapeBytes(t.GetTypeID(), t) }
func (t *ShapeArrays) Bytes() []byte        { return shapeBytes(t.GetTypeID(), t) }
func (t *ShapeSliceOfArrays) Bytes() []byte { return shapeBytes(t.GetTypeID(), t) }
func (t *ShapeArrayOfSlices) Bytes() []byte { return shapeBytes(t.GetTypeID(), t) }
func (t *ShapeGrids) Bytes() []byte         { return shapeBytes(t.GetTypeID(), t) }
func (t *ShapeSliceOfSlices) Bytes() []byte { return shapeBytes(t.GetTypeID(), t) }
func (t *ShapeMixedDims) Bytes() []byte     { return shapeBytes(t.GetTypeID(), t) }
func (t *ShapeNested) Bytes() []byte        { return shapeBytes(t.GetTypeID(), t) }
func (t *ShapeStructSlices) Bytes() []byte  { return shapeBytes(t.GetTypeID(), t) }
func (t *ShapeStructArrays) Bytes() []byte  { return shapeBytes(t.GetTypeID(), t) }
func (t *ShapeEmbedded) Bytes() []byte      { return shapeBytes(t.GetTypeID(), t) }
func (t *ShapeNoTags) Bytes() []byte        { return shapeBytes(t.GetTypeID(), t) }
func (t *ShapeNamedFields) Bytes() []byte   { return shapeBytes(t.GetTypeID(), t) }
func (t *ShapeOutScalars) Bytes() []byte    { return shapeBytes(t.GetTypeID(), t) }
func (t *ShapeOutGrids) Bytes() []byte      { return shapeBytes(t.GetTypeID(), t) }

type shapeTyped interface {
	codec.Typed
	Bytes() []byte
}

// shapeUnmarshal is UnmarshalTransfer for any T.
func shapeUnmarshal[T any, PT interface {
	*T
	shapeTyped
}](b []byte) (PT, error) {
	t := PT(new(T))
	if len(b) == 0 {
		return nil, errors.New("cannot unmarshal empty bytes")
	}
	if b[0] != t.GetTypeID() {
		return nil, fmt.Errorf("unexpected typeID: %d != %d", b[0], t.GetTypeID())
	}
	p := &wrappers.Packer{Bytes: b[1:]}
	if err := codec.LinearCodec.UnmarshalFrom(p, t); err != nil {
		return nil, err
	}
	if p.Offset != len(p.Bytes) {
		return nil, errors.New("trailing bytes")
	}
	return t, nil
}

type shapeInfo struct {
	name    string
	output  bool
	typ     reflect.Type // struct type
	classes []string
	named   bool // has a field of a named non-struct type (known finding class)
	multi   bool // has a field with >= 2 array/slice dimensions
}

var (
	shapeActionParser = codec.NewTypeParser[chain.Action]()
	shapeOutputParser = codec.NewTypeParser[codec.Typed]()
	shapeList         []shapeInfo
)

func shapeRegAction[T any, PT interface {
	*T
	shapeTyped
	chain.Action
}](classes ...string) {
	err := shapeActionParser.Register(PT(new(T)), func(b []byte) (chain.Action, error) {
		v, err := shapeUnmarshal[T, PT](b)
		if err != nil {
			return nil, err
		}
		return v, nil
	})
	if err != nil {
		panic(err)
	}
	shapeAdd(reflect.TypeOf(*new(T)), false, classes)
}

func shapeRegOutput[T any, PT interface {
	*T
	shapeTyped
}](classes ...string) {
	err := shapeOutputParser.Register(PT(new(T)), func(b []byte) (codec.Typed, error) {
		v, err := shapeUnmarshal[T, PT](b)
		if err != nil {
			return nil, err
		}
		return v, nil
	})
	if err != nil {
		panic(err)
	}
	shapeAdd(reflect.TypeOf(*new(T)), true, append(classes, "output"))
}

func shapeAdd(t reflect.Type, output bool, classes []string) {
	si := shapeInfo{name: t.Name(), output: output, typ: t, classes: classes}
	for i := 0; i < t.NumField(); i++ {
		f := t.Field(i)
		if f.Tag.Get("serialize") != "true" {
			continue
		}
		dims := 0
		ft := f.Type
		for ft.Name() == "" && (ft.Kind() == reflect.Slice || ft.Kind() == reflect.Array) {
			dims++
			ft = ft.Elem()
		}
		if dims >= 2 {
			si.multi = true
		}
		if ft.Kind() != reflect.Struct && ft.PkgPath() != "" && ft != reflect.TypeOf(codec.Address{}) {
			si.named = true
		}
	}
	shapeList = append(shapeList, si)
}

func init() {
	shapeRegAction[ShapeScalars]("scalars")
	shapeRegAction[ShapeByteForms]("byte-forms")
	shapeRegAction[ShapeSlices]("slices-of-scalars")
	shapeRegAction[ShapeArrays]("fixed-arrays")
	shapeRegAction[ShapeSliceOfArrays]("slice-of-fixed-arrays")
	shapeRegAction[ShapeArrayOfSlices]("fixed-array-of-slices")
	shapeRegAction[ShapeGrids]("multi-dim-fixed-arrays")
	shapeRegAction[ShapeSliceOfSlices]("slice-of-slices")
	shapeRegAction[ShapeMixedDims]("mixed-dimensions")
	shapeRegAction[ShapeNested]("nested-structs")
	shapeRegAction[ShapeStructSlices]("slices-of-structs")
	shapeRegAction[ShapeStructArrays]("arrays-of-structs")
	shapeRegAction[ShapeEmbedded]("embedded-struct")
	shapeRegAction[ShapeNoTags]("no-json-tags")
	shapeRegAction[ShapeNamedFields]("named-non-struct-fields")
	shapeRegOutput[ShapeOutScalars]("scalars")
	shapeRegOutput[ShapeOutGrids]("slice-of-fixed-arrays", "multi-dim-fixed-arrays", "slices-of-structs")
}

// ---------------------------------------------------------------- reflect-driven generator

func shapeGenInt(rt *rapid.T, lbl string, bits int) int64 {
	if bits == 64 {
		return c29I64().Draw(rt, lbl)
	}
	lo, hi := -(int64(1) << (bits - 1)), int64(1)<<(bits-1)-1
	return rapid.OneOf(rapid.SampledFrom([]int64{0, 1, -1, lo, hi, lo + 1, hi - 1}), rapid.Int64Range(lo, hi)).Draw(rt, lbl)
}

func shapeGenUint(rt *rapid.T, lbl string, bits int) uint64 {
	if bits == 64 {
		return c29U64().Draw(rt, lbl)
	}
	hi := uint64(1)<<bits - 1
	return rapid.OneOf(rapid.SampledFrom([]uint64{0, 1, hi, hi - 1, hi/2 + 1, hi / 2}), rapid.Uint64Range(0, hi)).Draw(rt, lbl)
}

// shapeGenInto fills v. With compact set (inside a long run), elements are
// chosen to be short in JSON: small integers, empty strings and slices, so
// that the binary encoding gets longer than the JSON document.
func shapeGenInto(rt *rapid.T, v reflect.Value, lbl string, compact bool) {
	switch v.Kind() {
	case reflect.Bool:
		v.SetBool(rapid.Bool().Draw(rt, lbl))
	case reflect.Int8, reflect.Int16, reflect.Int32, reflect.Int64:
		if compact || rapid.Bool().Draw(rt, lbl+".small") {
			v.SetInt(rapid.SampledFrom([]int64{0, 1, 7, -1}).Draw(rt, lbl))
			return
		}
		v.SetInt(shapeGenInt(rt, lbl, v.Type().Bits()))
	case reflect.Uint8, reflect.Uint16, reflect.Uint32, reflect.Uint64:
		if compact || rapid.Bool().Draw(rt, lbl+".small") {
			v.SetUint(rapid.SampledFrom([]uint64{0, 1, 7}).Draw(rt, lbl))
			return
		}
		v.SetUint(shapeGenUint(rt, lbl, v.Type().Bits()))
	case reflect.String:
		if compact {
			v.SetString(rapid.SampledFrom([]string{"", "", "a"}).Draw(rt, lbl))
			return
		}
		// invalid UTF-8 (lossy JSON) is kept rare: a value has many strings
		if c30Rare(rt, lbl+".raw", 6) {
			v.SetString(string(rapid.SliceOfN(rapid.Byte(), 1, 6).Draw(rt, lbl)))
		} else if c30Rare(rt, lbl+".long", 5) {
			v.SetString(strings.Repeat("k", rapid.SampledFrom([]int{255, 256, 1000, 65535}).Draw(rt, lbl)))
		} else {
			v.SetString(string(rapid.SliceOfN(rapid.SampledFrom(c29Runes), 0, 8).Draw(rt, lbl)))
		}
	case reflect.Array:
		if v.Type().Elem().Kind() == reflect.Uint8 {
			b := c29Bytes([]int{v.Len()}).Draw(rt, lbl)
			for i := 0; i < v.Len(); i++ {
				v.Index(i).SetUint(uint64(b[i]))
			}
			return
		}
		for i := 0; i < v.Len(); i++ {
			shapeGenInto(rt, v.Index(i), fmt.Sprintf("%s[%d]", lbl, i), compact)
		}
	case reflect.Slice:
		if v.Type().Elem().Kind() == reflect.Uint8 {
			lens := []int{0, 0, 1, 2, 3, 32, 33, 64, 300}
			if compact {
				lens = []int{0, 0, 0, 0, 0, 0, 0, 1}
			}
			b := c29Bytes(lens).Draw(rt, lbl)
			s := reflect.MakeSlice(v.Type(), len(b), len(b))
			for i := range b {
				s.Index(i).SetUint(uint64(b[i]))
			}
			v.Set(s)
			return
		}
		// 0..3 elements mostly; a tail of long runs (4..40) of compact elements
		n := rapid.SampledFrom([]int{0, 1, 2, 3, 1, 2}).Draw(rt, lbl+".len")
		elemCompact := compact
		if compact {
			n = rapid.SampledFrom([]int{0, 0, 0, 1, 2}).Draw(rt, lbl+".clen")
		} else if c30Rare(rt, lbl+".run", 2) {
			// fair bits for the length: rapid's integer ranges favour small values
			n = 4
			for _, b := range rapid.SliceOfN(rapid.Bool(), 2, 2).Draw(rt, lbl+".runlen8") {
				n += 12
				if !b {
					n -= 12
				}
			}
			n += rapid.IntRange(0, 12).Draw(rt, lbl+".runlen")
			elemCompact = true
		}
		s := reflect.MakeSlice(v.Type(), n, n)
		for i := 0; i < n; i++ {
			shapeGenInto(rt, s.Index(i), fmt.Sprintf("%s[%d]", lbl, i), elemCompact)
		}
		v.Set(s)
	case reflect.Struct:
		for i := 0; i < v.NumField(); i++ {
			f := v.Type().Field(i)
			if f.Tag.Get("serialize") != "true" {
				continue
			}
			shapeGenInto(rt, v.Field(i), lbl+"."+f.Name, compact)
		}
	default:
		panic("harness: unsupported kind " + v.Kind().String())
	}
}

// shapeScan reports whether the value holds invalid UTF-8 in a string and
// whether it holds a 64-bit number >= 2^53 in magnitude.
func shapeScan(v reflect.Value) (badUTF8, big bool) {
	switch v.Kind() {
	case reflect.String:
		return !utf8.ValidString(v.String()), false
	case reflect.Int64:
		x := v.Int()
		return false, x >= 1<<53 || x <= -(1<<53)
	case reflect.Uint64:
		return false, v.Uint() >= 1<<53
	case reflect.Array, reflect.Slice:
		for i := 0; i < v.Len(); i++ {
			b, g := shapeScan(v.Index(i))
			badUTF8, big = badUTF8 || b, big || g
		}
	case reflect.Struct:
		for i := 0; i < v.NumField(); i++ {
			b, g := shapeScan(v.Field(i))
			badUTF8, big = badUTF8 || b, big || g
		}
	}
	return badUTF8, big
}

// ---------------------------------------------------------------- case, run

// c29ShapeCase carries the value as its native encoding (the value is
// normalised by a native decode anyway, and bytes survive a replay file).
type c29ShapeCase struct {
	Shape  string
	Output bool
	Enc    []byte
	// Multi, when set, is a "same names, other layouts" case (c29multi_test.go)
	Multi []c29ShapeStep `json:",omitempty"`
}

func shapeFind(name string, output bool) (shapeInfo, bool) {
	for _, s := range shapeList {
		if s.name == name && s.output == output {
			return s, true
		}
	}
	return shapeInfo{}, false
}

func c29ShapeGen(rt *rapid.T) c29ShapeCase {
	if c30Rare(rt, "multiABI", 3) {
		return c29ShapeCase{Multi: c29MultiGen(rt)}
	}
	// rapid's index draws favour small indices; fair bits give every shape a share
	bits := rapid.SliceOfN(rapid.Bool(), 6, 6).Draw(rt, "shapeBits")
	idx := 0
	for _, b := range bits {
		idx <<= 1
		if b {
			idx |= 1
		}
	}
	s := shapeList[idx%len(shapeList)]
	pv := reflect.New(s.typ)
	shapeGenInto(rt, pv.Elem(), s.name, false)
	return c29ShapeCase{Shape: s.name, Output: s.output, Enc: pv.Interface().(shapeTyped).Bytes()}
}

func c29ShapeABI() (abi.ABI, error) {
	return c29Served(abi.NewABI(shapeActionParser.GetRegisteredTypes(), shapeOutputParser.GetRegisteredTypes()))
}

func c29ShapeRun(c c29ShapeCase, st *vstat.Stats) error {
	if len(c.Multi) > 0 {
		return c29MultiRun(c, st)
	}
	s, ok := shapeFind(c.Shape, c.Output)
	if !ok {
		return fmt.Errorf("harness: unknown shape %q", c.Shape)
	}
	var v shapeTyped
	if c.Output {
		t, err := shapeOutputParser.Unmarshal(c.Enc)
		if err != nil {
			return fmt.Errorf("harness: native decode of %s: %v", c.Shape, err)
		}
		v = t.(shapeTyped)
	} else {
		t, err := shapeActionParser.Unmarshal(c.Enc)
		if err != nil {
			return fmt.Errorf("harness: native decode of %s: %v", c.Shape, err)
		}
		v = t.(shapeTyped)
	}
	native := v.Bytes()
	doc, err := json.Marshal(v)
	if err != nil {
		return fmt.Errorf("harness: json of %s: %v", c.Shape, err)
	}
	rv := reflect.ValueOf(v).Elem()
	lossy, big := shapeScan(rv)
	if !lossy {
		// the value's JSON must denote the value, or the property has no subject
		back := reflect.New(s.typ)
		if err := json.Unmarshal(doc, back.Interface()); err != nil {
			return fmt.Errorf("harness: native JSON of %s does not parse back: %v", c.Shape, err)
		}
		if string(back.Interface().(shapeTyped).Bytes()) != string(native) {
			return fmt.Errorf("harness: native JSON of %s does not denote the value: %s", c.Shape, c29Short(string(doc)))
		}
	}
	labels := []string{"shape:" + s.name}
	for _, cl := range s.classes {
		labels = append(labels, "class:"+cl)
	}
	nonZero := !rv.IsZero()
	if nonZero {
		labels = append(labels, "value-nonzero")
	}
	if big {
		labels = append(labels, "number>=2^53")
	}
	if lossy {
		labels = append(labels, "json-lossy-string")
		st.Assumption("values whose native JSON is lossy (invalid UTF-8 inside a string field) are only checked in the decode direction")
	}
	if !c.Output && len(native) > len(doc) {
		// only actions are encoded from JSON (dynamic.Marshal)
		labels = append(labels, "binary-longer-than-json")
	}
	nt := s.multi && nonZero
	if nt {
		labels = append(labels, "multi-dimensional-nonzero")
	}
	excluded := s.named && st.Known(c29FindingNamedScalar)
	if excluded {
		st.Exclude(c29FindingNamedScalar)
		labels = append(labels, "excluded")
	}
	st.Case(nt, c.Shape+"|"+string(c.Enc), labels...)
	st.Sample(nt, map[string]any{"shape": s.name, "json": c29Short(string(doc)), "labels": labels})
	if excluded {
		return nil
	}

	a, err := c29ShapeABI()
	if err != nil {
		return fmt.Errorf("abi.NewABI(shape registries): %v", err)
	}
	if c.Output {
		got, err := dynamic.UnmarshalOutput(a, native)
		if err != nil {
			return fmt.Errorf("UnmarshalOutput(%s %x): %v%s", s.name, native, err, shapeABIHint(a, s.name))
		}
		if err := c29JSONEqual(got, string(doc)); err != nil {
			return fmt.Errorf("%s: %w%s", s.name, err, shapeABIHint(a, s.name))
		}
		return nil
	}
	if err := c29CheckAction(a, s.name, string(doc), native, lossy); err != nil {
		return fmt.Errorf("%w%s", err, shapeABIHint(a, s.name))
	}
	return nil
}

// shapeABIHint renders how the ABI describes the type (for failure messages).
func shapeABIHint(a abi.ABI, name string) string {
	t, ok := a.FindTypeByName(name)
	if !ok {
		return " [type not in ABI]"
	}
	parts := []string{}
	for _, f := range t.Fields {
		parts = append(parts, f.Name+":"+f.Type)
	}
	return " [ABI: " + strings.Join(parts, ", ") + "]"
}

func TestC29Shapes(t *testing.T) {
	st := vstat.New(t, "C29", "second stage, beyond the four shipped types: 15 action and 2 output types a VM author can register (serialize tags, GetTypeID, Bytes/unmarshaller over codec.LinearCodec like MorpheusVM's Transfer, own codec.TypeParser registries, ABI from abi.NewABI over them and passed through JSON) covering the ABI type grammar: int8..int64, uint8..uint64, bool, string, Address, []byte, [N]uint8, [N]T, [][N]T, [N][]T, [N][M]T with N!=M, [N][M][K]T, [][]T, [][][]T, mixed slice/array nests, nested structs, []struct, [][]struct, [N]struct, [][N]struct, [N][]struct, [N][M]struct, an embedded struct, fields without json tags, named non-struct field types; values generated by a reflect-driven rapid generator (boundary-biased integers per width, JSON-hostile strings, small 0/1/7 integers, 0..3 elements per slice level with a tail of runs of 4..40 compact elements (small integers, empty strings and inner slices: binary longer than JSON), byte strings 0..300), normalised by one native encode/decode; same oracle as the first stage; non-trivial = a type with a field of >=2 array/slice dimensions and a non-zero value; distinct by type and encoding. One case in eight runs in multi-ABI mode: 2..3 type families (\"VMs\" A, B, C in their own packages and registries) that use the same type names Transfer / Order / Receipt / nested Leg / Meta with different layouts (field lists, integer widths, array lengths, field order, type ids); one case builds their ABIs and interleaves 2..8 dynamic.Marshal / UnmarshalAction / UnmarshalOutput calls across them in a drawn order, each compared with the native codec of its own family; there non-trivial = a name used through >= 2 ABIs that lay it out differently")
	st.Assumption("this stage quantifies over types a VM author can register with the documented mechanism, not only over the four types the pinned tree registers; the type family is fixed (harness-defined), the values are generated")
	rapid.Check(t, func(rt *rapid.T) {
		c := c29ShapeGen(rt)
		vstat.Run(rt, st, c, func() error { return c29ShapeRun(c, st) })
	})
}
