// Package shapekit holds what the harness-defined action/output type families
// of the C29 check share: the boilerplate a VM author writes around a
// serialize-tagged struct (Bytes / unmarshaller over codec.LinearCodec, the way
// MorpheusVM's Transfer does it) and registration in codec.TypeParser registries.
package shapekit

import (
	"context"
	"errors"
	"fmt"
	"reflect"

	"github.com/ava-labs/avalanchego/ids"
	"github.com/ava-labs/avalanchego/utils/wrappers"

	"github.com/ava-labs/hypersdk/chain"
	"github.com/ava-labs/hypersdk/codec"
	"github.com/ava-labs/hypersdk/consts"
	"github.com/ava-labs/hypersdk/state"
)

// Base supplies the chain.Action methods that do not matter for encoding. It
// is embedded without a serialize tag: codec, ABI and encoding/json ignore it.
type Base struct{}

func (Base) ValidRange(chain.Rules) (int64, int64)      { return -1, -1 }
func (Base) ComputeUnits(chain.Rules) uint64            { return 1 }
func (Base) StateKeys(codec.Address, ids.ID) state.Keys { return state.Keys{} }
func (Base) Execute(context.Context, chain.Rules, state.Mutable, int64, codec.Address, ids.ID) ([]byte, error) {
	return nil, nil
}

type Typed interface {
	codec.Typed
	Bytes() []byte
}

func Bytes(id uint8, v any) []byte {
	p := &wrappers.Packer{Bytes: make([]byte, 0, 256), MaxSize: consts.NetworkSizeLimit}
	p.PackByte(id)
	if err := codec.LinearCodec.MarshalInto(v, p); err != nil {
		panic(err)
	}
	return p.Bytes
}

// Unmarshal is UnmarshalTransfer for any T.
func Unmarshal[T any, PT interface {
	*T
	Typed
}](b []byte) (PT, error) {
	t := PT(new(T))
	if len(b) == 0 {
		return nil, errors.New("cannot unmarshal empty bytes")
	}
	if b[0] != t.GetTypeID() {
		return nil, fmt.Errorf("unexpected typeID: %d != %d", b[0], t.GetTypeID())
	}
	p := &wrappers.Packer{Bytes: b[1:]}
	if err := codec.LinearCodec.UnmarshalFrom(p, t); err != nil {
		return nil, err
	}
	if p.Offset != len(p.Bytes) {
		return nil, errors.New("trailing bytes")
	}
	return t, nil
}

// Entry describes one registered type of a family.
type Entry struct {
	Name   string
	Output bool
	Type   reflect.Type // the struct type
}

// Family is one VM's worth of registries.
type Family struct {
	Name    string
	Actions *codec.TypeParser[chain.Action]
	Outputs *codec.TypeParser[codec.Typed]
	Entries []Entry
}

func NewFamily(name string) *Family {
	return &Family{Name: name, Actions: codec.NewTypeParser[chain.Action](), Outputs: codec.NewTypeParser[codec.Typed]()}
}

func RegAction[T any, PT interface {
	*T
	Typed
	chain.Action
}](f *Family) {
	err := f.Actions.Register(PT(new(T)), func(b []byte) (chain.Action, error) {
		v, err := Unmarshal[T, PT](b)
		if err != nil {
			return nil, err
		}
		return v, nil
	})
	if err != nil {
		panic(err)
	}
	t := reflect.TypeOf(*new(T))
	f.Entries = append(f.Entries, Entry{Name: t.Name(), Type: t})
}

func RegOutput[T any, PT interface {
	*T
	Typed
}](f *Family) {
	err := f.Outputs.Register(PT(new(T)), func(b []byte) (codec.Typed, error) {
		v, err := Unmarshal[T, PT](b)
		if err != nil {
			return nil, err
		}
		return v, nil
	})
	if err != nil {
		panic(err)
	}
	t := reflect.TypeOf(*new(T))
	f.Entries = append(f.Entries, Entry{Name: t.Name(), Output: true, Type: t})
}

// Decode runs the family's registered unmarshaller.
func (f *Family) Decode(output bool, b []byte) (Typed, error) {
	if output {
		v, err := f.Outputs.Unmarshal(b)
		if err != nil {
			return nil, err
		}
		return v.(Typed), nil
	}
	v, err := f.Actions.Unmarshal(b)
	if err != nil {
		return nil, err
	}
	return v.(Typed), nil
}
