package apis

import (
	"encoding/json"
	"fmt"
	"reflect"
	"sort"
	"strings"

	"pgregory.net/rapid"

	"github.com/ava-labs/hypersdk/abi"
	"github.com/ava-labs/hypersdk/abi/dynamic"
	"github.com/ava-labs/hypersdk/verifharness/props/apis/shapekit"
	"github.com/ava-labs/hypersdk/verifharness/props/apis/shapesa"
	"github.com/ava-labs/hypersdk/verifharness/props/apis/shapesb"
	"github.com/ava-labs/hypersdk/verifharness/props/apis/shapesc"
	"github.com/ava-labs/hypersdk/verifharness/vstat"
)

// "Same names, other layouts" mode of TestC29Shapes: one process (one case)
// works with the ABIs of 2..3 VMs whose registries use the same type names
// (Transfer, Order, Receipt, nested Leg and Meta) with different layouts, and
// interleaves dynamic.Marshal / Unmarshal calls across them in a drawn order.
// Each call is compared with the native codec of the family the value belongs
// to. The CLI and VM upgrades put several ABIs through one process.

var multiFamilies = []*shapekit.Family{shapesa.Family, shapesb.Family, shapesc.Family}

const (
	multiOpBoth = iota
	multiOpMarshal
	multiOpUnmarshal
)

type c29ShapeStep struct {
	Family int // index into multiFamilies
	Shape  string
	Output bool
	Enc    []byte // native encoding of the value
	Op     int
}

func multiEntry(f *shapekit.Family, name string) (shapekit.Entry, bool) {
	for _, e := range f.Entries {
		if e.Name == name {
			return e, true
		}
	}
	return shapekit.Entry{}, false
}

func multiGenStep(rt *rapid.T, lbl string, fam int, e shapekit.Entry) c29ShapeStep {
	pv := reflect.New(e.Type)
	shapeGenInto(rt, pv.Elem(), lbl+e.Name, false)
	op := multiOpUnmarshal
	if !e.Output {
		op = rapid.SampledFrom([]int{multiOpBoth, multiOpBoth, multiOpMarshal, multiOpUnmarshal}).Draw(rt, lbl+"op")
	}
	return c29ShapeStep{Family: fam, Shape: e.Name, Output: e.Output, Enc: pv.Interface().(shapekit.Typed).Bytes(), Op: op}
}

func c29MultiGen(rt *rapid.T) []c29ShapeStep {
	order := rapid.Permutation([]int{0, 1, 2}).Draw(rt, "families")
	nf := 2
	if rapid.Bool().Draw(rt, "threeFamilies") {
		nf = 3
	}
	fams := order[:nf]
	n := rapid.IntRange(2, 8).Draw(rt, "nsteps")
	steps := make([]c29ShapeStep, 0, n)
	for i := 0; i < n; i++ {
		lbl := fmt.Sprintf("s%d.", i)
		fi := fams[rapid.IntRange(0, nf-1).Draw(rt, lbl+"family")]
		f := multiFamilies[fi]
		e := f.Entries[rapid.IntRange(0, len(f.Entries)-1).Draw(rt, lbl+"entry")]
		if i == 1 && rapid.IntRange(0, 3).Draw(rt, lbl+"free") != 3 {
			// the second call goes through another ABI under the name the first one used
			prev := steps[0]
			for _, cand := range fams {
				if cand != prev.Family {
					fi = cand
					break
				}
			}
			e, _ = multiEntry(multiFamilies[fi], prev.Shape)
		}
		steps = append(steps, multiGenStep(rt, lbl, fi, e))
	}
	return steps
}

func multiLayout(a abi.ABI, name string) string {
	seen := map[string]bool{}
	var walk func(n string) string
	walk = func(n string) string {
		t, ok := a.FindTypeByName(n)
		if !ok || seen[n] {
			return n
		}
		seen[n] = true
		parts := []string{}
		for _, f := range t.Fields {
			base := f.Type[strings.LastIndex(f.Type, "]")+1:]
			parts = append(parts, f.Name+":"+f.Type[:len(f.Type)-len(base)]+walk(base))
		}
		delete(seen, n)
		return n + "{" + strings.Join(parts, ",") + "}"
	}
	return walk(name)
}

func c29MultiRun(c c29ShapeCase, st *vstat.Stats) error {
	if len(c.Multi) == 0 {
		return fmt.Errorf("harness: empty multi-ABI case")
	}
	abis := map[int]abi.ABI{}
	used := map[string]map[int]bool{}
	for _, s := range c.Multi {
		if s.Family < 0 || s.Family >= len(multiFamilies) {
			return fmt.Errorf("harness: bad family %d", s.Family)
		}
		if _, ok := abis[s.Family]; !ok {
			f := multiFamilies[s.Family]
			a, err := c29Served(abi.NewABI(f.Actions.GetRegisteredTypes(), f.Outputs.GetRegisteredTypes()))
			if err != nil {
				return fmt.Errorf("abi.NewABI(family %s): %v", f.Name, err)
			}
			abis[s.Family] = a
		}
		if used[s.Shape] == nil {
			used[s.Shape] = map[int]bool{}
		}
		used[s.Shape][s.Family] = true
	}
	// non-trivial: a name used through >= 2 ABIs that lay it out differently
	nt := false
	names := []string{}
	for name, fams := range used {
		layouts := map[string]bool{}
		for fi := range fams {
			layouts[multiLayout(abis[fi], name)] = true
		}
		if len(layouts) >= 2 {
			nt = true
			names = append(names, name)
		}
	}
	sort.Strings(names)
	labels := []string{"mode:multi-abi", fmt.Sprintf("multi-abi:families=%d", len(abis))}
	if nt {
		labels = append(labels, "multi-abi:name-through-abis-with-other-layouts")
	}
	for _, n := range names {
		labels = append(labels, "multi-abi:shared-name:"+n)
	}
	if len(c.Multi) >= 4 {
		labels = append(labels, "multi-abi:steps>=4")
	}
	canon, _ := json.Marshal(c.Multi)
	st.Case(nt, string(canon), labels...)
	trace := []string{}
	for _, s := range c.Multi {
		trace = append(trace, fmt.Sprintf("%s.%s/op%d", multiFamilies[s.Family].Name, s.Shape, s.Op))
	}
	st.Sample(nt, map[string]any{"mode": "multi-abi", "calls": trace, "labels": labels})

	for i, s := range c.Multi {
		f := multiFamilies[s.Family]
		if _, ok := multiEntry(f, s.Shape); !ok {
			return fmt.Errorf("harness: family %s has no %s", f.Name, s.Shape)
		}
		v, err := f.Decode(s.Output, s.Enc)
		if err != nil {
			return fmt.Errorf("harness: step %d: native decode of %s.%s: %v", i, f.Name, s.Shape, err)
		}
		native := v.Bytes()
		doc, err := json.Marshal(v)
		if err != nil {
			return fmt.Errorf("harness: step %d: json: %v", i, err)
		}
		lossy, _ := shapeScan(reflect.ValueOf(v).Elem())
		a := abis[s.Family]
		where := fmt.Sprintf("call %d of %v, ABI of family %s", i, trace, f.Name)
		if s.Output {
			got, err := dynamic.UnmarshalOutput(a, native)
			if err != nil {
				return fmt.Errorf("%s: UnmarshalOutput(%s %x): %v%s", where, s.Shape, native, err, shapeABIHint(a, s.Shape))
			}
			if err := c29JSONEqual(got, string(doc)); err != nil {
				return fmt.Errorf("%s: %s: %w%s", where, s.Shape, err, shapeABIHint(a, s.Shape))
			}
			continue
		}
		if s.Op != multiOpUnmarshal && !lossy {
			enc, err := dynamic.Marshal(a, s.Shape, string(doc))
			if err != nil {
				return fmt.Errorf("%s: dynamic.Marshal(%s, %s): %v%s", where, s.Shape, c29Short(string(doc)), err, shapeABIHint(a, s.Shape))
			}
			if string(enc) != string(native) {
				return fmt.Errorf("%s: dynamic.Marshal(%s, %s) = %x, native encoding %x%s", where, s.Shape, c29Short(string(doc)), enc, native, shapeABIHint(a, s.Shape))
			}
		}
		if s.Op != multiOpMarshal {
			got, err := dynamic.UnmarshalAction(a, native)
			if err != nil {
				return fmt.Errorf("%s: dynamic.UnmarshalAction(%s %x): %v%s", where, s.Shape, native, err, shapeABIHint(a, s.Shape))
			}
			if err := c29JSONEqual(got, string(doc)); err != nil {
				return fmt.Errorf("%s: %s: %w%s", where, s.Shape, err, shapeABIHint(a, s.Shape))
			}
		}
	}
	return nil
}
