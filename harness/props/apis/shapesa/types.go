// Package shapesa is "VM A": Transfer / Order / Receipt (+ nested Leg, Meta).
// shapesb and shapesc register types with the same names and other layouts.
package shapesa

import (
	"github.com/ava-labs/hypersdk/codec"
	"github.com/ava-labs/hypersdk/verifharness/props/apis/shapekit"
)

type Leg struct {
	Asset  [4]uint8 `serialize:"true" json:"asset"`
	Amount uint64   `serialize:"true" json:"amount"`
}

type Meta struct {
	Note string   `serialize:"true" json:"note"`
	Tags []string `serialize:"true" json:"tags"`
}

type Transfer struct {
	shapekit.Base
	To    codec.Address `serialize:"true" json:"to"`
	Value uint64        `serialize:"true" json:"value"`
	Memo  []byte        `serialize:"true" json:"memo"`
}

type Order struct {
	shapekit.Base
	Legs  []Leg  `serialize:"true" json:"legs"`
	Meta  Meta   `serialize:"true" json:"meta"`
	Nonce uint32 `serialize:"true" json:"nonce"`
}

type Receipt struct {
	Paid uint64 `serialize:"true" json:"paid"`
	Leg  Leg    `serialize:"true" json:"leg"`
}

func (*Transfer) GetTypeID() uint8 { return 0 }
func (*Order) GetTypeID() uint8    { return 1 }
func (*Receipt) GetTypeID() uint8  { return 0 }

func (t *Transfer) Bytes() []byte { return shapekit.Bytes(t.GetTypeID(), t) }
func (t *Order) Bytes() []byte    { return shapekit.Bytes(t.GetTypeID(), t) }
func (t *Receipt) Bytes() []byte  { return shapekit.Bytes(t.GetTypeID(), t) }

var Family = shapekit.NewFamily("A")

func init() {
	shapekit.RegAction[Transfer](Family)
	shapekit.RegAction[Order](Family)
	shapekit.RegOutput[Receipt](Family)
}
