package fixture

import (
	"github.com/ava-labs/avalanchego/ids"

	"github.com/ava-labs/hypersdk/chain"
)

type ActSpec struct {
	Compute uint64
	Start   int64
	End     int64
	Nonce   uint64
	Keys    []KeyDecl `json:",omitempty"`
	Ops     []Op      `json:",omitempty"`
}

type TxSpec struct {
	Sponsor     int
	Expiry      int64 // absolute, ms
	WrongChain  bool
	MaxFee      uint64
	AuthCompute uint64
	AuthStart   int64
	AuthEnd     int64
	AuthInvalid bool
	Actions     []ActSpec
	// Actor: index of the actor's address when it is not the sponsor's (a sponsored tx)
	Actor *int `json:",omitempty"`
	// AuthPad: filler bytes in the auth encoding (92 bytes without)
	AuthPad int `json:",omitempty"`
}

// ActorIdx is the index of the address the actions run for.
func (s TxSpec) ActorIdx() int {
	if s.Actor != nil {
		return *s.Actor
	}
	return s.Sponsor
}

func (s ActSpec) Action() *ProgAction {
	return NewProgAction(s.Compute, s.Start, s.End, s.Nonce, s.Keys, s.Ops)
}

// Build constructs the real transaction for a spec (StubAuth; actor = sponsor unless Actor is set).
func (s TxSpec) Build() *chain.Transaction {
	actions := make([]chain.Action, len(s.Actions))
	for i, a := range s.Actions {
		actions[i] = a.Action()
	}
	cid := ChainID
	if s.WrongChain {
		cid = ids.ID{0xde, 0xad}
	}
	auth := &StubAuth{SponsorAddr: Addr(s.Sponsor), ActorAddr: Addr(s.ActorIdx()), Compute: s.AuthCompute, Start: s.AuthStart, End: s.AuthEnd, Valid: !s.AuthInvalid, Pad: s.AuthPad}
	tx, err := chain.NewTransaction(chain.Base{Timestamp: s.Expiry, ChainID: cid, MaxFee: s.MaxFee}, actions, auth)
	if err != nil {
		panic(err)
	}
	return tx
}
