package fixture

import (
	"context"
	"encoding/binary"
	"sort"
	"sync"

	"github.com/ava-labs/avalanchego/database/memdb"
	"github.com/ava-labs/avalanchego/ids"
	"github.com/ava-labs/avalanchego/trace"
	"github.com/ava-labs/avalanchego/utils/logging"
	"github.com/ava-labs/avalanchego/x/merkledb"
	"github.com/prometheus/client_golang/prometheus"

	"github.com/ava-labs/hypersdk/chain"
	"github.com/ava-labs/hypersdk/codec"
	"github.com/ava-labs/hypersdk/genesis"
	"github.com/ava-labs/hypersdk/internal/workers"
	"github.com/ava-labs/hypersdk/state/balance"
	"github.com/ava-labs/hypersdk/state/metadata"
)

var (
	BalancePrefix = []byte{0x10}
	KeyPrefix     = byte(0x20)
)

// ChainID used by every generated rule set.
var ChainID = ids.ID{0xc4, 0xa1}

// Addr returns the i-th address of the sponsor pool (type id = StubAuthID).
func Addr(i int) codec.Address {
	var a codec.Address
	a[0] = StubAuthID
	a[1] = byte(0xA0 + i)
	a[codec.AddressLen-1] = byte(i)
	return a
}

func BalanceHandler() *balance.PrefixBalanceHandler {
	return balance.NewPrefixBalanceHandler(BalancePrefix)
}

func BalanceKey(i int) []byte { return BalanceHandler().BalanceKey(Addr(i)) }

// UKey is key #name with declared max chunks `chunks` of the shared universe.
func UKey(name byte, chunks uint16) []byte {
	return binary.BigEndian.AppendUint16([]byte{KeyPrefix, name}, chunks)
}

func Metadata() metadata.MetadataManager { return metadata.NewDefaultManager() }

func HeightKey() []byte    { return chain.HeightKey(Metadata().HeightPrefix()) }
func TimestampKey() []byte { return chain.TimestampKey(Metadata().TimestampPrefix()) }
func FeeKey() []byte       { return chain.FeeKey(Metadata().FeePrefix()) }

type RuleFactory struct{ R *genesis.Rules }

func (f RuleFactory) GetRules(int64) chain.Rules { return f.R }

// SwitchRules is a rule factory with scheduled rule changes: Before for
// timestamps below At, After from At on and, if Later is set, Later for
// timestamps above Until.
type SwitchRules struct {
	Before, After *genesis.Rules
	At            int64
	Later         *genesis.Rules
	Until         int64
}

func (f SwitchRules) GetRules(t int64) chain.Rules {
	if t < f.At {
		return f.Before
	}
	if f.Later != nil && t > f.Until {
		return f.Later
	}
	return f.After
}

// NewDB loads kv into a fresh merkledb over memdb.
func NewDB(kv map[string][]byte) (merkledb.MerkleDB, error) {
	db, err := merkledb.New(context.Background(), memdb.New(), merkledb.Config{
		BranchFactor: merkledb.BranchFactor16,
		Tracer:       trace.Noop,
	})
	if err != nil {
		return nil, err
	}
	keys := make([]string, 0, len(kv))
	for k := range kv {
		keys = append(keys, k)
	}
	sort.Strings(keys)
	for _, k := range keys {
		if err := db.Put([]byte(k), kv[k]); err != nil {
			return nil, err
		}
	}
	return db, nil
}

// RootOf returns the merkle root of a state given as a map.
func RootOf(kv map[string][]byte) (ids.ID, error) {
	db, err := NewDB(kv)
	if err != nil {
		return ids.Empty, err
	}
	defer db.Close()
	return db.GetMerkleRoot(context.Background())
}

var (
	metricsOnce sync.Once
	metrics     *chain.ChainMetrics
)

// Metrics returns one process-wide metrics object (counters only).
func Metrics() *chain.ChainMetrics {
	metricsOnce.Do(func() {
		m, err := chain.NewMetrics(prometheus.NewRegistry())
		if err != nil {
			panic(err)
		}
		metrics = m
	})
	return metrics
}

type ExecConfig struct {
	Cores       int
	Fetch       int
	AuthWorkers int // 0 = serial pool
}

// NewProcessor builds a real chain.Processor over the fixture's handlers.
func NewProcessor(r *genesis.Rules, vw chain.ValidityWindow, cfg ExecConfig, engines chain.AuthEngines) (*chain.Processor, workers.Workers) {
	return NewProcessorRF(RuleFactory{r}, vw, cfg, engines)
}

// NewProcessorRF is NewProcessor over an arbitrary rule factory.
func NewProcessorRF(rf chain.RuleFactory, vw chain.ValidityWindow, cfg ExecConfig, engines chain.AuthEngines) (*chain.Processor, workers.Workers) {
	var w workers.Workers
	if cfg.AuthWorkers <= 0 {
		w = workers.NewSerial()
	} else {
		w = workers.NewParallel(cfg.AuthWorkers, 4)
	}
	c := chain.NewDefaultConfig()
	c.TransactionExecutionCores = cfg.Cores
	c.StateFetchConcurrency = cfg.Fetch
	p := chain.NewProcessor(trace.Noop, logging.NoLog{}, rf, w, engines, Metadata(), BalanceHandler(), vw, Metrics(), c)
	return p, w
}

// NoEngines is an AuthEngines without batch verifiers.
type NoEngines struct{}

func (NoEngines) GetAuthBatchVerifier(uint8, int, int) (chain.AuthBatchVerifier, bool) {
	return nil, false
}
