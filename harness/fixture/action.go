// Package fixture holds the chain-level test fixture shared by the property
// checks: a programmable action with a strictly canonical codec, a stub auth,
// a parser, rule generation and merkledb helpers.
package fixture

import (
	"context"
	"encoding/binary"
	"errors"
	"fmt"
	"runtime"
	"sort"

	"github.com/ava-labs/avalanchego/database"
	"github.com/ava-labs/avalanchego/ids"

	"github.com/ava-labs/hypersdk/chain"
	"github.com/ava-labs/hypersdk/codec"
	"github.com/ava-labs/hypersdk/state"
)

const (
	ProgActionID uint8 = 0x07
	StubAuthID   uint8 = 0x09

	OpGet  uint8 = 0
	OpPut  uint8 = 1
	OpDel  uint8 = 2
	OpFail uint8 = 3
	// OpYield has no effect on state: it yields the processor Val[0] times so that
	// generated blocks explore more interleavings of concurrently running transactions.
	OpYield uint8 = 4
	// OpWho has no effect on state: it appends a record with the actor's address to the
	// output, so a result shows on whose behalf the action ran (actor and sponsor may differ)
	OpWho uint8 = 5
)

var ErrProgFail = errors.New("prog action: fail op")

type KeyDecl struct {
	Key  []byte
	Perm uint8
}

type Op struct {
	Kind uint8
	Key  []byte `json:",omitempty"`
	Val  []byte `json:",omitempty"`
}

// ProgAction is a chain.Action whose behaviour is a small program over state.
// Its output is the concatenation of (found, len, value) of every read, so
// what the action observed is visible in Result.Outputs.
type ProgAction struct {
	Compute uint64
	Start   int64
	End     int64
	Nonce   uint64
	Keys    []KeyDecl // strictly ascending by key in the canonical form
	Ops     []Op
}

var _ chain.Action = (*ProgAction)(nil)

func (a *ProgAction) normalize() {
	sort.SliceStable(a.Keys, func(i, j int) bool { return string(a.Keys[i].Key) < string(a.Keys[j].Key) })
	// merge duplicates by OR-ing permissions
	out := a.Keys[:0]
	for _, k := range a.Keys {
		if n := len(out); n > 0 && string(out[n-1].Key) == string(k.Key) {
			out[n-1].Perm |= k.Perm
			continue
		}
		out = append(out, k)
	}
	a.Keys = out
}

// NewProgAction returns the action in canonical form (keys sorted, merged).
func NewProgAction(compute uint64, start, end int64, nonce uint64, keys []KeyDecl, ops []Op) *ProgAction {
	a := &ProgAction{Compute: compute, Start: start, End: end, Nonce: nonce}
	for _, k := range keys {
		a.Keys = append(a.Keys, KeyDecl{Key: append([]byte{}, k.Key...), Perm: k.Perm})
	}
	for _, o := range ops {
		a.Ops = append(a.Ops, Op{Kind: o.Kind, Key: append([]byte{}, o.Key...), Val: append([]byte{}, o.Val...)})
	}
	a.normalize()
	return a
}

func (*ProgAction) GetTypeID() uint8 { return ProgActionID }

func (a *ProgAction) ValidRange(chain.Rules) (int64, int64) { return a.Start, a.End }

func (a *ProgAction) ComputeUnits(chain.Rules) uint64 { return a.Compute }

func (a *ProgAction) StateKeys(codec.Address, ids.ID) state.Keys {
	ks := make(state.Keys, len(a.Keys))
	for _, k := range a.Keys {
		ks[string(k.Key)] |= state.Permissions(k.Perm)
	}
	return ks
}

func (a *ProgAction) Bytes() []byte {
	b := []byte{ProgActionID}
	b = binary.BigEndian.AppendUint64(b, a.Compute)
	b = binary.BigEndian.AppendUint64(b, uint64(a.Start))
	b = binary.BigEndian.AppendUint64(b, uint64(a.End))
	b = binary.BigEndian.AppendUint64(b, a.Nonce)
	b = binary.BigEndian.AppendUint16(b, uint16(len(a.Keys)))
	for _, k := range a.Keys {
		b = binary.BigEndian.AppendUint16(b, uint16(len(k.Key)))
		b = append(b, k.Key...)
		b = append(b, k.Perm)
	}
	b = binary.BigEndian.AppendUint16(b, uint16(len(a.Ops)))
	for _, o := range a.Ops {
		b = append(b, o.Kind)
		b = binary.BigEndian.AppendUint16(b, uint16(len(o.Key)))
		b = append(b, o.Key...)
		b = binary.BigEndian.AppendUint32(b, uint32(len(o.Val)))
		b = append(b, o.Val...)
	}
	return b
}

type rd struct {
	b   []byte
	err error
}

func (r *rd) take(n int) []byte {
	if r.err != nil {
		return nil
	}
	if n < 0 || len(r.b) < n {
		r.err = errors.New("prog action: short input")
		return nil
	}
	v := r.b[:n]
	r.b = r.b[n:]
	return v
}
func (r *rd) u8() uint8 {
	v := r.take(1)
	if v == nil {
		return 0
	}
	return v[0]
}
func (r *rd) u16() uint16 {
	v := r.take(2)
	if v == nil {
		return 0
	}
	return binary.BigEndian.Uint16(v)
}
func (r *rd) u32() uint32 {
	v := r.take(4)
	if v == nil {
		return 0
	}
	return binary.BigEndian.Uint32(v)
}
func (r *rd) u64() uint64 {
	v := r.take(8)
	if v == nil {
		return 0
	}
	return binary.BigEndian.Uint64(v)
}

// UnmarshalProgAction accepts exactly the canonical encoding.
func UnmarshalProgAction(b []byte) (chain.Action, error) {
	r := &rd{b: b}
	if r.u8() != ProgActionID {
		return nil, errors.New("prog action: wrong type id")
	}
	a := &ProgAction{}
	a.Compute = r.u64()
	a.Start = int64(r.u64())
	a.End = int64(r.u64())
	a.Nonce = r.u64()
	nk := int(r.u16())
	for i := 0; i < nk && r.err == nil; i++ {
		kl := int(r.u16())
		k := append([]byte{}, r.take(kl)...)
		p := r.u8()
		if n := len(a.Keys); n > 0 && string(a.Keys[n-1].Key) >= string(k) {
			return nil, errors.New("prog action: keys not strictly ascending")
		}
		a.Keys = append(a.Keys, KeyDecl{Key: k, Perm: p})
	}
	no := int(r.u16())
	for i := 0; i < no && r.err == nil; i++ {
		kind := r.u8()
		if kind > OpWho {
			return nil, errors.New("prog action: bad op kind")
		}
		kl := int(r.u16())
		k := append([]byte{}, r.take(kl)...)
		vl := int(r.u32())
		v := append([]byte{}, r.take(vl)...)
		if kind != OpPut && kind != OpYield && vl != 0 {
			return nil, errors.New("prog action: value on non-put op")
		}
		if kind == OpYield && (vl != 1 || kl != 0) {
			return nil, errors.New("prog action: malformed yield op")
		}
		if (kind == OpFail || kind == OpWho) && kl != 0 {
			return nil, errors.New("prog action: key on fail/who op")
		}
		a.Ops = append(a.Ops, Op{Kind: kind, Key: k, Val: v})
	}
	if r.err != nil {
		return nil, r.err
	}
	if len(r.b) != 0 {
		return nil, errors.New("prog action: trailing bytes")
	}
	return a, nil
}

// ReadRecord renders one observed read the way Execute does.
func ReadRecord(val []byte, found bool) []byte {
	out := []byte{0}
	if found {
		out[0] = 1
	}
	out = binary.BigEndian.AppendUint32(out, uint32(len(val)))
	return append(out, val...)
}

func (a *ProgAction) Execute(ctx context.Context, _ chain.Rules, mu state.Mutable, _ int64, actor codec.Address, _ ids.ID) ([]byte, error) {
	out := []byte{}
	for i, o := range a.Ops {
		switch o.Kind {
		case OpGet:
			v, err := mu.GetValue(ctx, o.Key)
			switch {
			case err == nil:
				out = append(out, ReadRecord(v, true)...)
			case errors.Is(err, database.ErrNotFound):
				out = append(out, ReadRecord(nil, false)...)
			default:
				return nil, fmt.Errorf("op %d get: %w", i, err)
			}
		case OpPut:
			if err := mu.Insert(ctx, o.Key, o.Val); err != nil {
				return nil, fmt.Errorf("op %d put: %w", i, err)
			}
		case OpDel:
			if err := mu.Remove(ctx, o.Key); err != nil {
				return nil, fmt.Errorf("op %d del: %w", i, err)
			}
		case OpFail:
			return nil, ErrProgFail
		case OpWho:
			out = append(out, WhoRecord(actor)...)
		case OpYield:
			n := 1
			if len(o.Val) == 1 {
				n = int(o.Val[0])
			}
			for j := 0; j < n; j++ {
				runtime.Gosched()
			}
		}
	}
	return out, nil
}

// WhoRecord is what an OpWho op appends to the output.
func WhoRecord(actor codec.Address) []byte {
	return append([]byte{0xA7}, actor[:]...)
}

// StubAuth always (or never) verifies; sponsor and actor are explicit.
type StubAuth struct {
	SponsorAddr codec.Address
	ActorAddr   codec.Address
	Compute     uint64
	Start       int64
	End         int64
	Valid       bool
	// Pad: this many filler bytes at the end of the encoding (auths of 128 bytes and more
	// need a two-byte length prefix inside the tx)
	Pad int
}

var _ chain.Auth = (*StubAuth)(nil)

func (*StubAuth) GetTypeID() uint8                        { return StubAuthID }
func (a *StubAuth) ValidRange(chain.Rules) (int64, int64) { return a.Start, a.End }
func (a *StubAuth) ComputeUnits(chain.Rules) uint64       { return a.Compute }
func (a *StubAuth) Actor() codec.Address                  { return a.ActorAddr }
func (a *StubAuth) Sponsor() codec.Address                { return a.SponsorAddr }
func (a *StubAuth) Verify(context.Context, []byte) error {
	if !a.Valid {
		return errors.New("stub auth: invalid")
	}
	return nil
}

func (a *StubAuth) Bytes() []byte {
	b := []byte{StubAuthID}
	b = append(b, a.SponsorAddr[:]...)
	b = append(b, a.ActorAddr[:]...)
	b = binary.BigEndian.AppendUint64(b, a.Compute)
	b = binary.BigEndian.AppendUint64(b, uint64(a.Start))
	b = binary.BigEndian.AppendUint64(b, uint64(a.End))
	if a.Valid {
		b = append(b, 1)
	} else {
		b = append(b, 0)
	}
	for i := 0; i < a.Pad; i++ {
		b = append(b, 0x5A)
	}
	return b
}

const stubAuthLen = 1 + 2*codec.AddressLen + 8*3 + 1

func UnmarshalStubAuth(b []byte) (chain.Auth, error) {
	if len(b) < stubAuthLen || len(b) > stubAuthLen+4096 || b[0] != StubAuthID {
		return nil, errors.New("stub auth: bad encoding")
	}
	a := &StubAuth{Pad: len(b) - stubAuthLen}
	for _, c := range b[stubAuthLen:] {
		if c != 0x5A {
			return nil, errors.New("stub auth: bad padding")
		}
	}
	copy(a.SponsorAddr[:], b[1:])
	copy(a.ActorAddr[:], b[1+codec.AddressLen:])
	o := 1 + 2*codec.AddressLen
	a.Compute = binary.BigEndian.Uint64(b[o:])
	a.Start = int64(binary.BigEndian.Uint64(b[o+8:]))
	a.End = int64(binary.BigEndian.Uint64(b[o+16:]))
	switch b[o+24] {
	case 0:
	case 1:
		a.Valid = true
	default:
		return nil, errors.New("stub auth: bad valid flag")
	}
	return a, nil
}

// StubAuthFactory signs with a fixed StubAuth.
type StubAuthFactory struct{ Auth *StubAuth }

func (f *StubAuthFactory) Sign([]byte) (chain.Auth, error) { return f.Auth, nil }
func (f *StubAuthFactory) MaxUnits() (uint64, uint64) {
	return uint64(len(f.Auth.Bytes())), f.Auth.Compute
}
func (f *StubAuthFactory) Address() codec.Address { return f.Auth.ActorAddr }

// Parser parses ProgAction / StubAuth and delegates other type ids.
type Parser struct {
	ExtraActions map[uint8]func([]byte) (chain.Action, error)
	ExtraAuths   map[uint8]func([]byte) (chain.Auth, error)
}

var _ chain.Parser = (*Parser)(nil)

func (p *Parser) ParseAction(b []byte) (chain.Action, error) {
	if len(b) == 0 {
		return nil, errors.New("empty action")
	}
	if b[0] == ProgActionID {
		return UnmarshalProgAction(b)
	}
	if f, ok := p.ExtraActions[b[0]]; ok {
		return f(b)
	}
	return nil, fmt.Errorf("unknown action type %d", b[0])
}

func (p *Parser) ParseAuth(b []byte) (chain.Auth, error) {
	if len(b) == 0 {
		return nil, errors.New("empty auth")
	}
	if b[0] == StubAuthID {
		return UnmarshalStubAuth(b)
	}
	if f, ok := p.ExtraAuths[b[0]]; ok {
		return f(b)
	}
	return nil, fmt.Errorf("unknown auth type %d", b[0])
}
