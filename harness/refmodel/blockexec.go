// Package refmodel holds reference models written from the property
// statements (not from the code under test).
package refmodel

import (
	"encoding/binary"
	"fmt"
	"math/big"
	"sort"

	"github.com/ava-labs/hypersdk/genesis"
	"github.com/ava-labs/hypersdk/verifharness/fixture"
)

const (
	PermRead     = 1
	PermAllocate = 2 // bit; the exported constant in hypersdk also carries Read
	PermWrite    = 4
)

var maxU64 = new(big.Int).SetUint64(^uint64(0))

type Units [5]uint64

type TxResult struct {
	Success bool
	Outputs [][]byte
	Units   Units
	Fee     uint64
}

type BlockIn struct {
	Rules     *genesis.Rules
	Parent    map[string][]byte // complete parent state (incl. balances, metadata)
	Height    uint64
	Timestamp int64
	Txs       []fixture.TxSpec
	Sizes     []uint64 // encoded size of each tx
	Prices    Units    // unit prices of this block
}

type BlockOut struct {
	Valid    bool
	Reason   string // why the block is invalid (model vocabulary)
	BadTx    int
	Results  []TxResult
	Post     map[string][]byte // post state without the metadata keys rewritten by the block
	Consumed Units
}

func chunksOfKey(k string) (uint16, bool) {
	if len(k) < 2 {
		return 0, false
	}
	return binary.BigEndian.Uint16([]byte(k[len(k)-2:])), true
}

func chunksOfValue(v []byte) (uint64, bool) {
	if len(v) == 0 {
		return 0, true
	}
	c := uint64(len(v)/64 + 1)
	return c, c <= 65535
}

// DeclaredKeys is the union of all actions' declarations and the sponsor's
// balance key (read+write), permissions OR-ed. ok=false if a key is shorter
// than two bytes.
func DeclaredKeys(tx fixture.TxSpec) (map[string]uint8, bool) {
	m := map[string]uint8{}
	for _, a := range tx.Actions {
		for _, k := range a.Keys {
			if len(k.Key) < 2 {
				return nil, false
			}
			m[string(k.Key)] |= k.Perm
		}
	}
	m[string(fixture.BalanceKey(tx.Sponsor))] |= PermRead | PermWrite
	return m, true
}

// TxUnits computes the five dimensions in exact arithmetic.
func TxUnits(r *genesis.Rules, tx fixture.TxSpec, size uint64) (Units, bool, string) {
	keys, ok := DeclaredKeys(tx)
	if !ok {
		return Units{}, false, "invalid-declared-key"
	}
	compute := new(big.Int).SetUint64(r.BaseComputeUnits)
	for _, a := range tx.Actions {
		compute.Add(compute, new(big.Int).SetUint64(a.Compute))
	}
	compute.Add(compute, new(big.Int).SetUint64(tx.AuthCompute))
	reads, allocs, writes := new(big.Int), new(big.Int), new(big.Int)
	for k := range keys {
		c, _ := chunksOfKey(k)
		cb := new(big.Int).SetUint64(uint64(c))
		add := func(acc *big.Int, keyCost, valCost uint64) {
			acc.Add(acc, new(big.Int).SetUint64(keyCost))
			acc.Add(acc, new(big.Int).Mul(cb, new(big.Int).SetUint64(valCost)))
		}
		add(reads, r.StorageKeyReadUnits, r.StorageValueReadUnits)
		add(allocs, r.StorageKeyAllocateUnits, r.StorageValueAllocateUnits)
		add(writes, r.StorageKeyWriteUnits, r.StorageValueWriteUnits)
	}
	var u Units
	u[0] = size
	for i, b := range []*big.Int{compute, reads, allocs, writes} {
		if b.Cmp(maxU64) > 0 {
			return Units{}, false, fmt.Sprintf("units-overflow-dim%d", i+1)
		}
		u[i+1] = b.Uint64()
	}
	return u, true, ""
}

func Fee(prices, units Units) (uint64, bool) {
	t := new(big.Int)
	for i := 0; i < 5; i++ {
		t.Add(t, new(big.Int).Mul(new(big.Int).SetUint64(prices[i]), new(big.Int).SetUint64(units[i])))
	}
	if t.Cmp(maxU64) > 0 {
		return 0, false
	}
	return t.Uint64(), true
}

func activated(start, end, ts int64) bool {
	if start >= 0 && ts < start {
		return false
	}
	if end >= 0 && ts > end {
		return false
	}
	return true
}

// PreCheck is the property-C10 predicate plus fee affordability.
func PreCheck(r *genesis.Rules, tx fixture.TxSpec, ts int64) (bool, string) {
	if tx.WrongChain {
		return false, "wrong-chain"
	}
	if tx.Expiry%1000 != 0 {
		return false, "expiry-misaligned"
	}
	if tx.Expiry < ts {
		return false, "expired"
	}
	if tx.Expiry > ts+r.ValidityWindow {
		return false, "too-far-future"
	}
	if len(tx.Actions) > int(r.MaxActionsPerTx) {
		return false, "too-many-actions"
	}
	for _, a := range tx.Actions {
		if !activated(a.Start, a.End, ts) {
			return false, "action-not-activated"
		}
	}
	if !activated(tx.AuthStart, tx.AuthEnd, ts) {
		return false, "auth-not-activated"
	}
	return true, ""
}

func cloneState(m map[string][]byte) map[string][]byte {
	c := make(map[string][]byte, len(m))
	for k, v := range m {
		c[k] = v
	}
	return c
}

// RunActions applies the tx's actions to st (which already has the fee
// deducted) under the declared permissions. On failure st is left untouched.
func RunActions(tx fixture.TxSpec, perms map[string]uint8, st map[string][]byte) (map[string][]byte, bool, [][]byte) {
	work := cloneState(st)
	outputs := [][]byte{}
	for _, a := range tx.Actions {
		out := []byte{}
		for _, o := range a.Ops {
			p := perms[string(o.Key)]
			switch o.Kind {
			case fixture.OpGet:
				if p&PermRead == 0 {
					return st, false, outputs
				}
				v, ok := work[string(o.Key)]
				out = append(out, fixture.ReadRecord(v, ok)...)
			case fixture.OpPut:
				if p&PermWrite == 0 || p&PermRead == 0 {
					return st, false, outputs
				}
				kc, ok := chunksOfKey(string(o.Key))
				vc, vok := chunksOfValue(o.Val)
				if !ok || !vok || vc > uint64(kc) {
					return st, false, outputs
				}
				if _, exists := work[string(o.Key)]; !exists && p&PermAllocate == 0 {
					return st, false, outputs
				}
				work[string(o.Key)] = append([]byte{}, o.Val...)
			case fixture.OpDel:
				if p&PermWrite == 0 || p&PermRead == 0 {
					return st, false, outputs
				}
				delete(work, string(o.Key))
			case fixture.OpFail:
				return st, false, outputs
			case fixture.OpWho:
				out = append(out, fixture.WhoRecord(fixture.Addr(tx.ActorIdx()))...)
			}
		}
		outputs = append(outputs, out)
	}
	return work, true, outputs
}

// ExecuteBlock applies the txs one at a time in block order.
func ExecuteBlock(in BlockIn) BlockOut {
	out := BlockOut{Valid: true, BadTx: -1}
	st := cloneState(in.Parent)
	max := in.Rules.MaxBlockUnits
	for i, tx := range in.Txs {
		fail := func(reason string) BlockOut {
			return BlockOut{Valid: false, Reason: reason, BadTx: i}
		}
		units, ok, why := TxUnits(in.Rules, tx, in.Sizes[i])
		if !ok {
			return fail(why)
		}
		// all-or-nothing consumption against the block maximum
		var next Units
		for d := 0; d < 5; d++ {
			s := new(big.Int).Add(new(big.Int).SetUint64(out.Consumed[d]), new(big.Int).SetUint64(units[d]))
			if s.Cmp(new(big.Int).SetUint64(max[d])) > 0 {
				return fail(fmt.Sprintf("block-units-exceeded-dim%d", d))
			}
			next[d] = s.Uint64()
		}
		out.Consumed = next
		if ok, why := PreCheck(in.Rules, tx, in.Timestamp); !ok {
			return fail(why)
		}
		fee, ok := Fee(in.Prices, units)
		if !ok {
			return fail("fee-overflow")
		}
		bk := string(fixture.BalanceKey(tx.Sponsor))
		raw, have := st[bk]
		var bal uint64
		if have {
			if len(raw) != 8 {
				return fail("balance-unparsable")
			}
			bal = binary.BigEndian.Uint64(raw)
		}
		if bal < fee {
			return fail("cannot-pay-fee")
		}
		if !have {
			// fee == 0 and no balance entry: nothing to deduct from
			return fail("no-balance-entry")
		}
		st[bk] = binary.BigEndian.AppendUint64(nil, bal-fee)
		perms, _ := DeclaredKeys(tx)
		post, success, outputs := RunActions(tx, perms, st)
		st = post
		out.Results = append(out.Results, TxResult{Success: success, Outputs: outputs, Units: units, Fee: fee})
	}
	out.Post = st
	return out
}

// Canon renders a state map deterministically (for diffs in error messages).
func Canon(m map[string][]byte) string {
	ks := make([]string, 0, len(m))
	for k := range m {
		ks = append(ks, k)
	}
	sort.Strings(ks)
	s := ""
	for _, k := range ks {
		s += fmt.Sprintf("%x=%x;", k, m[k])
	}
	return s
}

// Diff lists the keys on which two states differ.
func Diff(got, want map[string][]byte) string {
	ks := map[string]bool{}
	for k := range got {
		ks[k] = true
	}
	for k := range want {
		ks[k] = true
	}
	names := make([]string, 0, len(ks))
	for k := range ks {
		names = append(names, k)
	}
	sort.Strings(names)
	s := ""
	for _, k := range names {
		g, gok := got[k]
		w, wok := want[k]
		if gok != wok || string(g) != string(w) {
			short := func(b []byte) string {
				if len(b) > 24 {
					return fmt.Sprintf("%x..(%d bytes)", b[:8], len(b))
				}
				return fmt.Sprintf("%x", b)
			}
			s += fmt.Sprintf(" key %x: got %s(present=%v) want %s(present=%v);", k, short(g), gok, short(w), wok)
		}
	}
	return s
}
