// Package vstat is the evidence collector and replay plumbing shared by every
// property check of the /verif harness.
//
// A check is written as
//
//	func TestCxx(t *testing.T) {
//		st := vstat.New(t, "Cxx", "<rule text>")
//		rapid.Check(t, func(rt *rapid.T) {
//			c := gen(rt)
//			vstat.Run(rt, st, c, func() error { return run(c, st) })
//		})
//	}
//	func TestCxxReplay(t *testing.T) { vstat.Replay(t, "Cxx", func(raw []byte) error { ... }) }
//
// Everything it writes goes to paths named by environment variables set by
// /verif/check.py; without them it still works (stats are discarded, replay
// files land in the OS temp dir) so the tests can also be run by hand.
package vstat

import (
	"encoding/json"
	"fmt"
	"hash/fnv"
	"os"
	"path/filepath"
	"runtime/debug"
	"sort"
	"strings"
	"sync"
	"testing"
	"time"
)

const (
	maxSamples = 8
	maxHashes  = 400000
)

// TB is the subset of testing.TB / *rapid.T that Run needs.
type TB interface {
	Helper()
	Fatalf(format string, args ...any)
}

type Stats struct {
	mu         sync.Mutex
	ID         string
	Rule       string
	Evals      int64
	NonTrivial int64
	hashes     map[uint64]struct{}
	overflowed bool
	Labels     map[string]int64
	Excluded   map[string]int64
	Skipped    map[string]int64
	Samples    []any
	sampleNT   int
	Assume     []string
	Exhaustive bool
	Extra      map[string]any
	start      time.Time
	known      map[string]bool
}

type fileFormat struct {
	ID         string           `json:"id"`
	Rule       string           `json:"rule"`
	Evals      int64            `json:"evaluations"`
	NonTrivial int64            `json:"nontrivial_total"`
	Hashes     []uint64         `json:"hashes"`
	Overflowed bool             `json:"hash_overflow"`
	Labels     map[string]int64 `json:"labels"`
	Excluded   map[string]int64 `json:"excluded"`
	Skipped    map[string]int64 `json:"skipped"`
	Samples    []any            `json:"samples"`
	Assume     []string         `json:"assumptions"`
	Exhaustive bool             `json:"exhaustive"`
	Extra      map[string]any   `json:"extra,omitempty"`
	WallS      float64          `json:"wall_s"`
}

// New creates a collector that is flushed when the test ends.
func New(t *testing.T, id, rule string) *Stats {
	s := &Stats{
		ID: id, Rule: rule,
		hashes:   map[uint64]struct{}{},
		Labels:   map[string]int64{},
		Excluded: map[string]int64{},
		Skipped:  map[string]int64{},
		Extra:    map[string]any{},
		start:    time.Now(),
		known:    map[string]bool{},
	}
	for _, k := range strings.Split(os.Getenv("VERIF_KNOWN"), ",") {
		if k = strings.TrimSpace(k); k != "" {
			s.known[k] = true
		}
	}
	if t != nil {
		t.Cleanup(s.Flush)
	}
	return s
}

// Known reports whether the named finding is listed with status "known" in
// /verif/known_findings.json (passed in by the driver through VERIF_KNOWN).
// Checks use it to exclude exactly that class by construction.
func (s *Stats) Known(finding string) bool { return s.known[finding] }

// Assumption records a stated assumption once.
func (s *Stats) Assumption(a string) {
	s.mu.Lock()
	defer s.mu.Unlock()
	for _, x := range s.Assume {
		if x == a {
			return
		}
	}
	s.Assume = append(s.Assume, a)
}

// Case records one executed case. canonical is any deterministic rendering of
// the case; it is hashed for the distinct count only if nontrivial.
func (s *Stats) Case(nontrivial bool, canonical string, labels ...string) {
	s.mu.Lock()
	defer s.mu.Unlock()
	s.Evals++
	for _, l := range labels {
		if l != "" {
			s.Labels[l]++
		}
	}
	if nontrivial {
		s.NonTrivial++
		if len(s.hashes) < maxHashes {
			h := fnv.New64a()
			h.Write([]byte(canonical))
			s.hashes[h.Sum64()] = struct{}{}
		} else {
			s.overflowed = true
		}
	}
}

func (s *Stats) Label(l string) {
	s.mu.Lock()
	s.Labels[l]++
	s.mu.Unlock()
}

func (s *Stats) LabelN(l string, n int64) {
	s.mu.Lock()
	s.Labels[l] += n
	s.mu.Unlock()
}

func (s *Stats) Exclude(name string) {
	s.mu.Lock()
	s.Excluded[name]++
	s.mu.Unlock()
}

func (s *Stats) Skip(name string) {
	s.mu.Lock()
	s.Skipped[name]++
	s.mu.Unlock()
}

func (s *Stats) SetExtra(k string, v any) {
	s.mu.Lock()
	s.Extra[k] = v
	s.mu.Unlock()
}

// Sample keeps up to maxSamples rendered cases, preferring non-trivial ones.
func (s *Stats) Sample(nontrivial bool, v any) {
	s.mu.Lock()
	defer s.mu.Unlock()
	if len(s.Samples) < maxSamples {
		s.Samples = append(s.Samples, v)
		if nontrivial {
			s.sampleNT++
		}
		return
	}
	if nontrivial && s.sampleNT < maxSamples {
		// replace a slot round-robin so late, larger cases are seen too
		s.Samples[s.sampleNT%maxSamples] = v
		s.sampleNT++
	}
}

func (s *Stats) Flush() {
	path := os.Getenv("VERIF_STATS_FILE")
	if path == "" {
		return
	}
	s.mu.Lock()
	defer s.mu.Unlock()
	ff := fileFormat{
		ID: s.ID, Rule: s.Rule, Evals: s.Evals, NonTrivial: s.NonTrivial,
		Overflowed: s.overflowed, Labels: s.Labels, Excluded: s.Excluded, Skipped: s.Skipped,
		Samples: s.Samples, Assume: s.Assume, Exhaustive: s.Exhaustive, Extra: s.Extra,
		WallS: time.Since(s.start).Seconds(),
	}
	ff.Hashes = make([]uint64, 0, len(s.hashes))
	for h := range s.hashes {
		ff.Hashes = append(ff.Hashes, h)
	}
	sort.Slice(ff.Hashes, func(i, j int) bool { return ff.Hashes[i] < ff.Hashes[j] })
	b, err := json.Marshal(ff)
	if err != nil {
		b, _ = json.Marshal(map[string]any{"id": s.ID, "marshal_error": err.Error(), "evaluations": s.Evals})
	}
	tmp := path + ".tmp"
	if err := os.WriteFile(tmp, b, 0o644); err == nil {
		_ = os.Rename(tmp, path)
	}
}

// ReplayPath is where a failing case of this process is written. It is
// overwritten while rapid shrinks, so the last write is the minimal case.
func ReplayPath(id string) string {
	if p := os.Getenv("VERIF_REPLAY_FILE"); p != "" {
		return p
	}
	return filepath.Join(os.TempDir(), "verif-replay-"+id+".json")
}

type replayFile struct {
	Property string          `json:"property"`
	Error    string          `json:"error"`
	Case     json.RawMessage `json:"case"`
}

func writeReplay(id string, c any, err error) string {
	p := ReplayPath(id)
	raw, merr := json.Marshal(c)
	if merr != nil {
		raw, _ = json.Marshal(fmt.Sprintf("%+v", c))
	}
	b, _ := json.MarshalIndent(replayFile{Property: id, Error: err.Error(), Case: raw}, "", " ")
	_ = os.MkdirAll(filepath.Dir(p), 0o755)
	_ = os.WriteFile(p, b, 0o644)
	return p
}

// Run executes one case; an oracle error or a panic becomes a replay file and
// a test failure (which rapid then shrinks).
func Run(t TB, s *Stats, c any, f func() error) {
	t.Helper()
	var err error
	func() {
		defer func() {
			if r := recover(); r != nil {
				// rapid's own control-flow panics must pass through
				if isRapidInternal(r) {
					panic(r)
				}
				err = fmt.Errorf("panic: %v\n%s", r, debug.Stack())
			}
		}()
		err = f()
	}()
	if err != nil {
		p := writeReplay(s.ID, c, err)
		t.Fatalf("VERIF-FAIL property=%s replay=%s: %v", s.ID, p, err)
	}
}

func isRapidInternal(r any) bool {
	tn := fmt.Sprintf("%T", r)
	return strings.HasPrefix(tn, "rapid.") || strings.HasPrefix(tn, "*rapid.")
}

// Replay runs f on the case stored in $VERIF_REPLAY_INPUT (skips if unset).
func Replay(t *testing.T, id string, f func(raw []byte) error) {
	p := os.Getenv("VERIF_REPLAY_INPUT")
	if p == "" {
		t.Skip("VERIF_REPLAY_INPUT not set")
	}
	b, err := os.ReadFile(p)
	if err != nil {
		t.Fatalf("read replay: %v", err)
	}
	var rf replayFile
	if err := json.Unmarshal(b, &rf); err != nil {
		t.Fatalf("decode replay: %v", err)
	}
	if rf.Property != "" && rf.Property != id {
		t.Fatalf("replay file is for %s, not %s", rf.Property, id)
	}
	var rerr error
	func() {
		defer func() {
			if r := recover(); r != nil {
				rerr = fmt.Errorf("panic: %v\n%s", r, debug.Stack())
			}
		}()
		rerr = f(rf.Case)
	}()
	if rerr != nil {
		fmt.Printf("REPLAY-FAIL property=%s: %v\n", id, rerr)
		t.Fatalf("replayed case still fails: %v", rerr)
	}
	fmt.Printf("REPLAY-PASS property=%s\n", id)
}
