package vstat

import (
	"regexp"
	"runtime"
	"sort"
	"strings"
	"time"
)

var goroutineHdr = regexp.MustCompile(`^goroutine (\d+) \[([^\],]+)`)

// blockedStates are goroutine states in which a goroutine cannot make progress
// on its own.
var blockedStates = map[string]bool{
	"chan receive": true, "chan send": true, "select": true, "semacquire": true,
	"sync.Cond.Wait": true, "sync.Mutex.Lock": true, "sync.RWMutex.RLock": true,
	"sync.RWMutex.Lock": true, "sync.WaitGroup.Wait": true, "select (no cases)": true,
	"chan receive (nil chan)": true, "chan send (nil chan)": true,
}

// snapshot returns a signature of all goroutines whose stack mentions any of
// the given substrings, and whether every one of them is blocked.
func snapshot(match []string) (string, bool, int) {
	buf := make([]byte, 1<<20)
	for {
		n := runtime.Stack(buf, true)
		if n < len(buf) {
			buf = buf[:n]
			break
		}
		buf = make([]byte, 2*len(buf))
	}
	var sigs []string
	all := true
	for _, g := range strings.Split(string(buf), "\n\n") {
		if strings.Contains(g, "vstat.snapshot") {
			continue // the goroutine taking the snapshot
		}
		hit := false
		for _, m := range match {
			if strings.Contains(g, m) {
				hit = true
				break
			}
		}
		if !hit {
			continue
		}
		lines := strings.Split(g, "\n")
		h := goroutineHdr.FindStringSubmatch(lines[0])
		if h == nil {
			continue
		}
		if !blockedStates[h[2]] {
			all = false
		}
		top := ""
		if len(lines) > 1 {
			top = lines[1]
		}
		sigs = append(sigs, h[1]+"|"+h[2]+"|"+top)
	}
	sort.Strings(sigs)
	return strings.Join(sigs, "\n"), all, len(sigs)
}

// Quiescent reports positive evidence of a deadlock among the goroutines
// whose stacks mention one of `match`: over `rounds` snapshots `gap` apart the
// same goroutines sit in the same blocked states at the same frames and none
// of them is runnable. A loaded machine delays goroutines but does not make a
// runnable goroutine look blocked, so this cannot fire on a healthy system.
func Quiescent(match []string, rounds int, gap time.Duration) (bool, string) {
	prev, ok, n := snapshot(match)
	if !ok || n == 0 {
		return false, prev
	}
	for i := 0; i < rounds; i++ {
		time.Sleep(gap)
		cur, ok, _ := snapshot(match)
		if !ok || cur != prev {
			return false, cur
		}
	}
	return true, prev
}
