#!/usr/bin/env python3
"""Archive confirmed seeded regressions from /tmp/seedout/<id>/ into /verif/seeded/<id>/ (patch.diff, demo, meta.json)
merging every /tmp/seedout/<id>.result*.json (later results override earlier per check)."""
import glob, json, os, shutil, sys
NOTES = json.load(open('/verif/tools/seednotes.json'))
for d in sorted(glob.glob('/tmp/seedout/C*/')):
    name = os.path.basename(d.rstrip('/'))
    results = sorted(glob.glob('/tmp/seedout/%s.result*.json' % name))
    if not results or not os.path.exists(d + 'patch.diff'):
        continue
    conf, checks, history = {}, {}, []
    for r in results:
        try:
            j = json.load(open(r))
        except Exception:
            continue
        for k in ('applies', 'builds', 'suite_pass', 'demo_fails_with', 'demo_passes_without'):
            if k in j and (k not in conf or j[k]):
                conf[k] = j[k]
        for c, v in j.get('checks', {}).items():
            history.append({"check": c, "verdict": v['verdict'], "run": os.path.basename(r)})
            checks[c] = {"verdict": v['verdict'], "wall_s": v['wall_s'], "first_failure": v.get('why', '')[:300]}
    if not (conf.get('applies') and conf.get('builds')):
        print("skip %s: not confirmed %s" % (name, conf)); continue
    out = '/verif/seeded/%s/' % name
    os.makedirs(out, exist_ok=True)
    for f in os.listdir(d):
        if f.endswith('.go') or f in ('patch.diff', 'demo_cmd.txt'):
            shutil.copy(d + f, out + f)
    meta = {}
    if os.path.exists(d + 'meta.json'):
        try: meta = json.load(open(d + 'meta.json'))
        except Exception: meta = {}
    meta['property'] = meta.get('property', name.split('-')[0])
    meta['confirmed_by_lead'] = {
        "how": "tools/seedcheck.py: fresh scratch worktree of /repo HEAD; git apply patch.diff; go build ./...; unedited tests of the touched packages; demonstration run with the patch (must fail) and with the patch reverted (must pass); then `VERIF_REPO=<worktree> python3 check.py <id> --tier quick` per check; worktree removed",
        **conf}
    meta['checks'] = checks
    meta['check_history'] = history
    if name in NOTES:
        meta['lead_note'] = NOTES[name]
    meta['caught_by'] = sorted(c for c, v in checks.items() if v['verdict'] == 'caught')
    json.dump(meta, open(out + 'meta.json', 'w'), indent=1)
    print(name, conf, meta['caught_by'])
