#!/usr/bin/env python3
"""summarise /tmp/seedout/<seed>.result*.json for the seeds given (or all)"""
import json, sys, glob, os
names = sys.argv[1:] or sorted(set(os.path.basename(f).split('.')[0] for f in glob.glob('/tmp/seedout/*.result*.json')))
for n in names:
    for f in sorted(glob.glob('/tmp/seedout/%s.result*.json' % n)):
        try: d = json.load(open(f))
        except Exception: print(os.path.basename(f), 'UNPARSABLE', open(f).read()[-300:]); continue
        flags = ''.join(k[0] if d.get(k) else '-' for k in ('applies', 'builds', 'suite_pass', 'demo_fails_with', 'demo_passes_without'))
        print(os.path.basename(f), flags, ' '.join('%s:%s(%ss)' % (c, v['verdict'], v['wall_s']) for c, v in d['checks'].items()))
        for c, v in d['checks'].items():
            if v['verdict'] != 'caught': print('     ', c, (v.get('why') or '')[:300])
        if not d.get('suite_pass') and d.get('suite_out'): print('   suite:', d['suite_out'][-300:].replace('\n', ' '))
        if not (d.get('demo_fails_with') and d.get('demo_passes_without')) and d.get('demo_out'): print('   demo:', str(d['demo_out'])[:300])
