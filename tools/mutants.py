#!/usr/bin/env python3
"""Hand-made mutant runner: applies one textual mutation to a scratch worktree of /repo HEAD,
runs the named checks (quick tier) against it via VERIF_REPO, reports caught/missed.
usage: mutants.py <mutants.json> [name-filter]   (results appended to /verif/notes/mutants_lead.jsonl)"""
import json, os, subprocess, sys, time
WT = "/tmp/wt-mut"
def sh(cmd, **kw):
    return subprocess.run(cmd, shell=True, stdout=subprocess.PIPE, stderr=subprocess.STDOUT, text=True, **kw)
muts = json.load(open(sys.argv[1]))
flt = sys.argv[2] if len(sys.argv) > 2 else ""
sh("git -C /repo worktree remove --force %s; git -C /repo worktree add -q %s HEAD" % (WT, WT))
for m in muts:
    if flt and flt not in m["name"]:
        continue
    sh("git -C %s checkout -- ." % WT)
    p = os.path.join(WT, m["file"])
    s = open(p).read()
    if m["old"] not in s:
        print("SKIP %s: pattern not found" % m["name"]); continue
    open(p, "w").write(s.replace(m["old"], m["new"], 1))
    b = sh("cd %s && GOFLAGS=-mod=mod go build ./... 2>&1 | tail -5" % WT)
    if b.stdout.strip():
        print("SKIP %s: does not compile: %s" % (m["name"], b.stdout[-300:])); continue
    res = {}
    for chk in m["checks"]:
        t0 = time.time()
        r = sh("cd /verif && VERIF_REPO=%s python3 check.py %s --tier quick" % (WT, chk))
        verdict = "caught" if "VIOLATION property=" in r.stdout else ("infra" if r.returncode == 2 else "missed")
        res[chk] = verdict
        why = [l for l in r.stdout.splitlines() if "VERIF-FAIL" in l][-1:] 
        print("%s %s -> %s (%.0fs) %s" % (m["name"], chk, verdict, time.time() - t0, (why[0][:300] if why else "")), flush=True)
    with open("/verif/notes/mutants_lead.jsonl", "a") as f:
        f.write(json.dumps({"name": m["name"], "file": m["file"], "old": m["old"], "new": m["new"], "results": res}) + "\n")
sh("git -C /repo worktree remove --force %s" % WT)
# replays written by mutant runs are not findings
