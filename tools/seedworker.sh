#!/bin/bash
# sequential worker: each line of /tmp/seedout/queue.txt = "<seed> <check ids...> [flags]"; results -> /tmp/seedout/<seed>.result<N>.json
cd /verif
touch /tmp/seedout/queue.txt /tmp/seedout/done.txt
while true; do
  line=$(comm -23 <(sort -u /tmp/seedout/queue.txt) <(sort -u /tmp/seedout/done.txt) | head -1)
  if [ -z "$line" ]; then sleep 5; continue; fi
  set -- $line; s=$1; shift
  n=$(ls /tmp/seedout/$s.result*.json 2>/dev/null | wc -l)
  python3 tools/seedcheck.py /tmp/seedout/$s "$@" > /tmp/seedout/$s.result$((n+1)).json 2>&1
  echo "$line" >> /tmp/seedout/done.txt
done
