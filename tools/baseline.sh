#!/bin/bash
# runs the repository's own suite with the verif guard off (no build tag) on /repo's working tree and
# compares against the stable_pass list of /root/.vp/BASELINE.json; log in /tmp/baseline-off.json
cd /repo || exit 2
export GOFLAGS=-mod=mod GOPROXY=off
go test -json -vet=off -count=1 -timeout 25m ./... > /tmp/baseline-off.json 2>/tmp/baseline-off.err
python3 - <<'P'
import json
b = json.load(open('/root/.vp/BASELINE.json'))
res = {}
for l in open('/tmp/baseline-off.json'):
    try: j = json.loads(l)
    except Exception: continue
    if j.get('Test') and j.get('Action') in ('pass', 'fail', 'skip'):
        res[j['Package'] + '::' + j['Test']] = j['Action']
stable = b['stable_pass']
bad = [(t, res.get(t, 'missing')) for t in stable if res.get(t) != 'pass']
print('stable tests: %d, passing now: %d' % (len(stable), len(stable) - len(bad)))
for t, r in bad: print('  NOT PASSING:', t, r)
P
git -C /repo status --short | head -5
