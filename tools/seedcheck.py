#!/usr/bin/env python3
"""Confirm a seeded regression and run our checks against it.
usage: seedcheck.py <seed-dir with patch.diff, demo file(s), demo_cmd.txt, meta.json> <check ids...> [--tier quick]
Steps (all in a fresh scratch worktree of /repo HEAD, removed afterwards):
  1. patch applies, project builds
  2. existing tests of the touched packages pass
  3. demo fails with the patch and passes without it
  4. each listed check: VIOLATION (caught) / OK (missed) / infra
Prints a JSON summary."""
import json, os, re, shutil, subprocess, sys, time
def sh(cmd, timeout=3600, **kw):
    try:
        p = subprocess.run(cmd, shell=True, stdout=subprocess.PIPE, stderr=subprocess.STDOUT, text=True, timeout=timeout, **kw)
        return p.returncode, p.stdout
    except subprocess.TimeoutExpired as e:
        return 124, (e.stdout or "") if isinstance(e.stdout, str) else ""
d = os.path.abspath(sys.argv[1])
checks = [a for a in sys.argv[2:] if not a.startswith("--")]
tier = "thorough" if "--thorough" in sys.argv else "quick"
name = os.path.basename(d)
wt = "/tmp/sc-" + name
sh("git -C /repo worktree remove --force %s" % wt)
sh("git -C /repo worktree add -q %s HEAD" % wt)
res = {"seed": name, "checks": {}}
try:
    rc, out = sh("git -C %s apply --check %s && git -C %s apply %s" % (wt, d + "/patch.diff", wt, d + "/patch.diff"))
    res["applies"] = rc == 0
    if rc != 0:
        res["apply_err"] = out[-400:]
        raise SystemExit
    rc, out = sh("cd %s && GOFLAGS=-mod=mod go build ./... 2>&1 | tail -5" % wt)
    res["builds"] = out.strip() == ""
    files = [l[6:] for l in open(d + "/patch.diff").read().splitlines() if l.startswith("+++ b/")]
    pkgs = sorted(set("./" + os.path.dirname(f) + "/..." for f in files if f.endswith(".go") and not f.startswith("examples/")))
    if "--skip-suite" not in sys.argv:
        rc, out = sh("cd %s && GOFLAGS=-mod=mod go test -vet=off -count=1 -timeout 900s -skip TestGetChunkSignature_PersistAttestedBlocks %s 2>&1 | tail -15" % (wt, " ".join(pkgs)))
        res["suite_pass"] = rc == 0 and "FAIL" not in out
        if not res["suite_pass"]:
            res["suite_out"] = out[-600:]
    # demo
    demo_cmd = open(d + "/demo_cmd.txt").read().strip().splitlines()[-1] if os.path.exists(d + "/demo_cmd.txt") else None
    demos = [f for f in os.listdir(d) if f.endswith("_test.go") or (f.endswith(".go") and f not in ())]
    meta = json.load(open(d + "/meta.json")) if os.path.exists(d + "/meta.json") else {}
    demo_dir = meta.get("demo_dir")
    if demo_cmd and demos:
        # place demo files next to the first changed file unless meta says otherwise
        target = demo_dir or os.path.dirname(files[0])
        m = re.search(r"\./([\w/]+)", demo_cmd)
        if m and os.path.isdir(os.path.join(wt, m.group(1))):
            target = m.group(1)
        # best source of truth: where the demo file sits in the seeding agent's own worktree
        rcx, outx = sh("git -C /tmp/seed-%s status --short --untracked-files=all | grep -E 'zz_seed|_test.go' | head -1" % name)
        if rcx == 0 and outx.strip() and os.path.isdir("/tmp/seed-%s" % name):
            cand = os.path.dirname(outx.strip().split()[-1])
            if os.path.isdir(os.path.join(wt, cand)):
                target = cand
        for f in demos:
            shutil.copy(os.path.join(d, f), os.path.join(wt, target, f))
        demo_cmd = demo_cmd.replace("/tmp/seed-" + name, wt)
        demo_cmd = re.sub(r"/tmp/seed-[\w-]+", wt, demo_cmd)
        rc1, out1 = sh("cd %s && export GOFLAGS=-mod=mod && %s 2>&1 | tail -8" % (wt, demo_cmd), timeout=1200)
        res["demo_fails_with"] = ("FAIL" in out1) or ("panic" in out1)
        sh("cd %s && git apply -R %s" % (wt, d + "/patch.diff"))
        rc2, out2 = sh("cd %s && export GOFLAGS=-mod=mod && %s 2>&1 | tail -8" % (wt, demo_cmd), timeout=1200)
        res["demo_passes_without"] = ("ok" in out2) and ("FAIL" not in out2)
        if not (res["demo_fails_with"] and res["demo_passes_without"]):
            res["demo_out"] = (out1[-300:], out2[-300:])
        sh("cd %s && git apply %s" % (wt, d + "/patch.diff"))
        for f in demos:
            os.remove(os.path.join(wt, target, f))
    for c in checks:
        t0 = time.time()
        rc, out = sh("cd /verif && VERIF_REPO=%s python3 check.py %s --tier %s" % (wt, c, tier), timeout=7200)
        verdict = "caught" if "VIOLATION property=" in out else ("infra" if rc == 2 else "missed")
        why = [l for l in out.splitlines() if "VERIF-FAIL" in l][-1:]
        res["checks"][c] = {"verdict": verdict, "wall_s": round(time.time() - t0), "why": (why[0][:400] if why else out[-300:] if verdict == "infra" else "")}
finally:
    sh("git -C /repo worktree remove --force %s" % wt)
    print(json.dumps(res, indent=1))
