#!/usr/bin/env python3
"""Regenerates section 8.5 of DESIGN.md (which checks catch which seeded regressions / hand mutants)."""
import glob, json, os, re
rows = []
ncaught = 0
for d in sorted(glob.glob('/verif/seeded/*/')):
    name = os.path.basename(d.rstrip('/'))
    try: m = json.load(open(d + 'meta.json'))
    except Exception: continue
    chk = m.get('checks', {})
    caught = [c for c, v in chk.items() if v['verdict'] == 'caught']
    missed = [c for c, v in chk.items() if v['verdict'] != 'caught']
    hist = m.get('check_history', [])
    first_missed = sorted(set(h['check'] for h in hist if h['verdict'] != 'caught' and h['check'] in caught))
    summ = (m.get('summary') or '').replace('|', '/').replace('\n', ' ')
    if len(summ) > 230: summ = summ[:227] + '...'
    ncaught += 1 if caught else 0
    note = ''
    if first_missed: note = ' (first missed by %s; caught after strengthening)' % ', '.join(first_missed)
    if m.get('lead_note'): note += ' (' + m['lead_note'] + ')'
    rows.append('| %s | %s | %s | %s%s | %s |' % (name, m.get('property', ''), summ, ', '.join(caught) or '-', note, ', '.join(missed) or '-'))
tab = ['| seed | property | change (needs something specific to manifest; see seeded/<seed>/meta.json) | caught by (quick tier) | also run, not caught (other properties\' checks) |', '|---|---|---|---|---|'] + rows
hm = []
p = '/verif/notes/mutants_lead.jsonl'
if os.path.exists(p):
    seen = {}
    for l in open(p):
        j = json.loads(l); seen[j['name']] = j
    for n, j in seen.items():
        hm.append('| %s | %s | %s |' % (n, j['file'], ', '.join('%s:%s' % (c, v) for c, v in j['results'].items())))
sec = '\n### 8.5 Sensitivity: which checks catch which changes\n\nIndependently written regressions (fresh sub-agents given only the property text and a scratch worktree; each confirmed by the lead with `tools/seedcheck.py`: applies, builds, unedited suite of the touched packages passes, demonstration fails with the change and passes without it). %d seeds, %d caught by the quick tier of at least one check; the others are the seeds judged outside the domain of their property (8.3).\n\n' % (len(rows), ncaught) + '\n'.join(tab) + '\n\nHand-made mutants of the lead\'s own checks (`tools/mutants.py`, quick tier; per-package mutants of the other checks are listed with one-line diffs in `notes/<pkg>.md`):\n\n| mutant | file | result |\n|---|---|---|\n' + '\n'.join(hm) + '\n'
s = open('/verif/DESIGN.md').read()
i = s.find('\n### 8.5 Sensitivity')
if i >= 0:
    j = s.find('\n### 8.', i + 5)
    s = s[:i] + sec + (s[j:] if j >= 0 else '')
else:
    s = s.rstrip('\n') + '\n' + sec
open('/verif/DESIGN.md', 'w').write(s)
print(len(rows), 'seeds;', len(hm), 'hand mutants')
