#!/bin/bash
# runs every registered check (quick or thorough) once; usage: runall.sh <tier> <seed> [ids...]
tier=${1:-quick}; seed=${2:-1}; shift; shift
cd /verif
ids="$@"
[ -z "$ids" ] && ids=$(python3 -c "import json;print(' '.join(c['property_id'] for c in json.load(open('MANIFEST.json'))['checks']))")
for id in $ids; do
  t0=$(date +%s)
  out=$(VERIF_SEED=$seed python3 check.py $id --tier $tier 2>&1); rc=$?
  t1=$(date +%s)
  echo "$id rc=$rc $((t1-t0))s $(echo "$out" | grep -E '^(OK|VIOLATION|INFRA|KNOWN-FINDING)' | cut -c1-160 | tr '\n' '|')"
done
