#!/usr/bin/env python3
import json,glob,os
for f in sorted(glob.glob('/tmp/seedout/*.result.json')):
    try: d=json.load(open(f))
    except Exception as e: print(os.path.basename(f),'UNPARSABLE', open(f).read()[-300:]); continue
    flags=''.join(k[0] if d.get(k) else '-' for k in ('applies','builds','suite_pass','demo_fails_with','demo_passes_without'))
    print(d['seed'],flags,' '.join('%s:%s(%ss)'%(c,v['verdict'],v['wall_s']) for c,v in d['checks'].items()))
    for c,v in d['checks'].items():
        if v['verdict']!='caught' and v.get('why'): print('     ',c,v['why'][:200])
    if d.get('suite_out'): print('   suite:',d['suite_out'][-200:].replace('\n',' '))
    if d.get('demo_out'): print('   demo:',str(d['demo_out'])[:300])
