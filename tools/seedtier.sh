#!/bin/bash
# seedtier.sh <seed> <check id> [tier] : runs one check at the given tier (default thorough) against a scratch
# worktree of /repo HEAD with /tmp/seedout/<seed>/patch.diff applied; worktree removed afterwards
s=$1; id=$2; tier=${3:-thorough}
wt=/tmp/st-$s
git -C /repo worktree remove --force $wt >/dev/null 2>&1
git -C /repo worktree add --detach $wt >/dev/null 2>&1 || exit 2
git -C $wt apply /tmp/seedout/$s/patch.diff || { git -C /repo worktree remove --force $wt; exit 2; }
cd /verif && VERIF_REPO=$wt VERIF_SEED=${VERIF_SEED:-1} python3 check.py $id --tier $tier 2>&1 | grep -E "^(OK|VIOLATION|INFRA|KNOWN)|VERIF-FAIL|DATA RACE|race" | cut -c1-400 | head -8
git -C /repo worktree remove --force $wt
rm -f /verif/replays/$id/$tier-seed*-* 2>/dev/null
