#!/usr/bin/env python3
"""prints the prompt for a seeding agent: seed_prompt.py C01 [variant-hint]"""
import json, sys
pid = sys.argv[1]
hint = sys.argv[2] if len(sys.argv) > 2 else ""
p = [json.loads(l) for l in open('/verif/properties.jsonl') if json.loads(l)['id'] == pid][0]
wt = "/tmp/seed-%s%s" % (pid, ("-" + hint.split(':')[0]) if hint else "")
out = "/tmp/seedout/%s%s" % (pid, ("-" + hint.split(':')[0]) if hint else "")
print(f"""You are helping evaluate a verification tool by writing a realistic REGRESSION for an open-source Go project (ava-labs/hypersdk, a framework for Avalanche blockchain VMs). You work ONLY inside your own scratch git worktree of the project at {wt} (already created for you, at the project's current HEAD). Do NOT read, list or touch /verif or /repo or any other directory under /tmp; do not look for existing verification harnesses. Everything you need is in {wt}.

The semantic property you must break:

id: {p['id']}
title: {p['title']}
statement: {p['statement']}
quantifier: {p['quantifier']['text']}
code anchors: {', '.join(p['anchors']['files'])}
mechanisms meant to make it hold: {json.dumps(p['anchors'].get('mechanism', []))}

Task: make ONE small, realistic change to the non-test source code in {wt} (the kind of slip a maintainer could make in a refactor or an optimisation: an off-by-one, a dropped or reordered step, a wrong branch condition, a missed case, a lost synchronisation, two cooperating sites that each look fine alone) such that
  (a) the project still compiles (`cd {wt} && GOFLAGS=-mod=mod go build ./...`),
  (b) the EXISTING tests of the packages you touched and their main dependants still pass, unedited (`GOFLAGS=-mod=mod go test -vet=off -count=1 -timeout 600s ./<pkg>/...`; always pass -timeout; skip only x/dsmr's TestGetChunkSignature_PersistAttestedBlocks which hangs on the unmodified tree; vm's TestStateSync-style "block does not contain tx" failures are a known load flake of the unmodified tree),
  (c) the property above is violated, and
  (d) the violation needs something SPECIFIC to manifest — a particular interleaving, a crash or fault at a particular point, a multi-step sequence of operations, an unusual input or boundary value, a particular configuration — NOT something that ordinary use or any smoke test would expose at once. {('Hint for this variant: ' + hint.split(':',1)[1]) if ':' in hint else ''}

Then write a demonstration: a Go test file (new file, placed in the relevant package inside {wt}, named zz_seed_demo_test.go) or a small program that FAILS with your change and PASSES without it (verify both: run it with your change; then save and revert your source change with `git diff -- <your files> > /tmp/seedout/<id>.mine.diff && git apply -R /tmp/seedout/<id>.mine.diff` — keep the demo file — run it again, then `git apply /tmp/seedout/<id>.mine.diff`. NEVER use `git stash`: the stash is shared between all worktrees of this repository and other people are working in sibling worktrees). The demonstration should be deterministic or nearly so.

Deliverables, written to {out}/ (create it):
  - patch.diff : `git -C {wt} diff -- . ':(exclude)**/zz_seed_demo_test.go'` (source change only, no demo file; new untracked source files must be included via `git add -N` first)
  - the demonstration file(s), copied there, plus demo_cmd.txt with the exact command to run it from {wt}
  - meta.json : {{"property": "{p['id']}", "summary": "<one sentence: what was changed>", "needs_to_manifest": "<what specific input/sequence/interleaving/fault is needed>", "files_changed": [...], "tests_run": ["<commands you ran and that passed>"], "demo_fails_with_change": true, "demo_passes_without_change": true}}
Keep the source change small (a few lines). Do not weaken or edit existing tests. Do not add build tags. Leave the worktree with your change applied and the demo file present. Your final message: the summary, what it needs to manifest, and the demo command. Always use `-timeout` with go test, and keep command output short (pipe through tail).""")
