#!/bin/bash
# dev helper: run go test in the harness against an alternate hypersdk tree
#   VERIF_REPO=/tmp/wt-lead ./devtest.sh -run 'TestC01$' ./props/chainexec/ -rapid.checks=1000
cd /verif/harness
export GOFLAGS=-mod=mod GOPROXY=off
MF=""
if [ -n "$VERIF_REPO" ]; then
  MF=$(cd /verif && python3 -c "import check; print(' '.join(check.alt_modfile()))")
fi
exec go test -tags verif -vet=off -count=1 $MF "$@" -rapid.nofailfile
