"""Registry of property checks: which Go test(s) decide each property and with what budget.

stage keys: test (Go test name), quick / thorough (rapid case counts per process),
shards (thorough processes, default = cores), plain (not a rapid test: run once),
tiers, race, fuzz (native fuzz target) + fuzztime, timeout_quick / timeout_thorough.
"""

def rapid(test, quick, thorough, **kw):
    d = dict(test=test, quick=quick, thorough=thorough)
    d.update(kw)
    return d

def plain(test, **kw):
    d = dict(test=test, plain=True)
    d.update(kw)
    return d

def fuzz(target, secs, **kw):
    d = dict(fuzz=target, fuzztime=secs, tiers=("thorough",))
    d.update(kw)
    return d

CHECKS = {
    "C39": dict(pkg="light", level="exploration",
                technique="property-based testing (rapid) + exhaustive small-scope enumeration against a brute-force oracle",
                stages=[rapid("TestC39", 20000, 400000), plain("TestC39Exhaustive")]),
}

# per-package fragments: registry.d/<pkg>.py define CHECKS_<anything> dicts via the helpers above
import glob as _glob, os as _os
for _f in sorted(_glob.glob(_os.path.join(_os.path.dirname(_os.path.abspath(__file__)), "registry.d", "*.py"))):
    _ns = dict(rapid=rapid, plain=plain, fuzz=fuzz)
    exec(compile(open(_f).read(), _f, "exec"), _ns)
    CHECKS.update(_ns.get("CHECKS", {}))

# commits in /repo that add verif-tagged hooks (MANIFEST.hooks.source_commits)
HOOK_COMMITS = ['5b415ab', '4cb8b51']

# properties deliberately not claimed, with reason (others default to "not built yet")
NOT_APPLICABLE = {}
